#!/bin/bash
# Entry point of every MANIFEST command.
#   ./check.sh <ID> quick|thorough          run the check for one property (rewrites evidence/<ID>.json)
#   ./check.sh <ID> replay <file>           re-run one replay file, bypassing all random generation
# Exit codes: 0 property held on everything explored (KNOWN-FINDING lines possible);
#             1 + "VIOLATION property=<ID> replay=<path>";  2 inconclusive (build failure, watchdog, OOM).
set -u
cd "$(dirname "$0")"
VERIF=$(pwd)
export CARGO_NET_OFFLINE=true
export SEQIO_VERIF_DIR="$VERIF"
export RUST_BACKTRACE=0
ID=${1:?property id}
TIER=${2:?quick|thorough|replay}
shift 2

case "$ID" in
  C07|C08|C15|C16) CRATE=sched; BIN=seqio_verif_sched ;;
  *)               CRATE=harness; BIN=seqio_verif ;;
esac

# always rebuild from /repo's current working tree (seq_io is a path dependency: cargo fingerprints its sources)
BUILD_LOG=$(mktemp /tmp/seqio_verif_build.XXXXXX)
if ! (cd "$VERIF/$CRATE" && cargo build --release --offline) >"$BUILD_LOG" 2>&1; then
  if [ "$CRATE" = sched ] && (cd /repo && cargo build --offline) >/dev/null 2>&1; then
    # /repo itself builds, but not with the shuttle shims (feature verif_hooks): e.g. a change to parallel.rs that uses
    # a primitive the shims do not provide. Fall back to the real-thread tier (same drivers and oracles, no hook).
    echo "NOTE: the hooked build (feature verif_hooks) failed; falling back to the real-thread tier (blackbox/)"
    grep -E "^error" -A6 "$BUILD_LOG" | head -20
    CRATE=blackbox; BIN=seqio_verif_blackbox
    if ! (cd "$VERIF/$CRATE" && cargo build --release --offline) >"$BUILD_LOG" 2>&1; then
      echo "INCONCLUSIVE: build of $CRATE failed too"; tail -40 "$BUILD_LOG"; rm -f "$BUILD_LOG"; exit 2
    fi
  else
    echo "INCONCLUSIVE: build of $CRATE failed"
    tail -40 "$BUILD_LOG"
    rm -f "$BUILD_LOG"
    exit 2
  fi
fi
rm -f "$BUILD_LOG"

case "$TIER" in
  quick)    LIMIT=1500 ;;
  thorough) LIMIT=14400 ;;
  replay)   LIMIT=600 ;;
  *) echo "unknown tier $TIER"; exit 2 ;;
esac

if [ "$CRATE" = sched ] || [ "$CRATE" = blackbox ]; then
  # shuttle prints every failing schedule to stderr (also while shrinking); results go to stdout
  ERR_LOG=$(mktemp /tmp/seqio_verif_stderr.XXXXXX)
  timeout -k 10 "$LIMIT" "$VERIF/$CRATE/target/release/$BIN" "$ID" "$TIER" "$@" 2>"$ERR_LOG"
  rc=$?
  if [ $rc -ne 0 ] && [ $rc -ne 1 ]; then tail -20 "$ERR_LOG"; fi
  rm -f "$ERR_LOG"
else
  timeout -k 10 "$LIMIT" "$VERIF/$CRATE/target/release/$BIN" "$ID" "$TIER" "$@"
  rc=$?
fi
if [ $rc -eq 124 ]; then
  echo "INCONCLUSIVE: watchdog expired after ${LIMIT}s (not a violation)"
  exit 2
fi
if [ $rc -eq 137 ]; then
  echo "INCONCLUSIVE: the checker was killed (out of memory, or the watchdog's KILL after ${LIMIT}s) - not a violation"
  exit 2
fi
if [ $rc -ne 0 ] && [ $rc -ne 1 ]; then
  echo "INCONCLUSIVE: checker exited with status $rc"
  exit 2
fi

# schedule-tier properties: a complementary pass on real threads (blackbox/: same drivers and oracles, no hook, several
# configurations run one after the other in one process). It sees what the shuttle shims cannot: code that bypasses them
# (std primitives used directly, process-wide state surviving from one parallel call to the next). A hang there is
# reported as inconclusive (exit 2), never as a violation.
if [ $rc -eq 0 ] && [ "$CRATE" = sched ] && [ "$TIER" != replay ]; then
  BUILD_LOG=$(mktemp /tmp/seqio_verif_build.XXXXXX)
  if (cd "$VERIF/blackbox" && cargo build --release --offline) >"$BUILD_LOG" 2>&1; then
    ERR_LOG=$(mktemp /tmp/seqio_verif_stderr.XXXXXX)
    SEQIO_EVIDENCE_NAME="$ID.realthreads" timeout -k 10 "$LIMIT" "$VERIF/blackbox/target/release/seqio_verif_blackbox" "$ID" "$TIER" 2>"$ERR_LOG" | sed 's/^\(C[0-9][0-9] [a-z]*:\)/real-thread pass \1/'
    rc2=${PIPESTATUS[0]}
    if [ $rc2 -ne 0 ] && [ $rc2 -ne 1 ]; then tail -5 "$ERR_LOG"; fi
    rm -f "$ERR_LOG"
    python3 - "$VERIF/evidence/$ID.json" "$VERIF/evidence/$ID.realthreads.json" <<'PYEOF'
import json, os, sys
main, extra = sys.argv[1], sys.argv[2]
try:
    m = json.load(open(main)); e = json.load(open(extra))
    c = e.get("coverage", {})
    m["coverage"]["real_thread_pass"] = {"evaluations": c.get("evaluations"), "distinct_nontrivial": c.get("distinct_nontrivial"),
        "classes": c.get("classes"), "sub_checks": c.get("sub_checks"), "schedule_tier": c.get("schedule_tier"), "wall_s": e.get("wall_s"), "violations": e.get("violations")}
    json.dump(m, open(main, "w"), indent=2)
except Exception as ex:
    print("note: could not merge the real-thread evidence:", ex)
try:
    os.remove(extra)
except OSError:
    pass
PYEOF
    if [ $rc2 -eq 1 ]; then
      rc=1
    elif [ $rc2 -ne 0 ]; then
      echo "INCONCLUSIVE: the real-thread pass ended with status $rc2 (a hang on real threads cannot be told from slowness)"
      rc=2
    fi
  else
    echo "INCONCLUSIVE: build of blackbox failed"; tail -20 "$BUILD_LOG"; rc=2
  fi
  rm -f "$BUILD_LOG"
fi

# thorough tier of the byte-string properties: add a coverage-guided libFuzzer campaign with the same oracle
if [ $rc -eq 0 ] && [ "$TIER" = thorough ] && [ -x "$VERIF/fuzzproj/run_fuzz.sh" ]; then
  case "$ID" in
    C01|C02|C03|C06) "$VERIF/fuzzproj/run_fuzz.sh" "$ID"; rc=$? ;;
  esac
fi
exit $rc
