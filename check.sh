#!/bin/bash
# Entry point of every MANIFEST command.
#   ./check.sh <ID> quick|thorough          run the check for one property (rewrites evidence/<ID>.json)
#   ./check.sh <ID> replay <file>           re-run one replay file, bypassing all random generation
# Exit codes: 0 property held on everything explored (KNOWN-FINDING lines possible);
#             1 + "VIOLATION property=<ID> replay=<path>";  2 inconclusive (build failure, watchdog, OOM).
set -u
cd "$(dirname "$0")"
VERIF=$(pwd)
export CARGO_NET_OFFLINE=true
export SEQIO_VERIF_DIR="$VERIF"
export RUST_BACKTRACE=0
ID=${1:?property id}
TIER=${2:?quick|thorough|replay}
shift 2

case "$ID" in
  C07|C08|C15|C16) CRATE=sched; BIN=seqio_verif_sched ;;
  *)               CRATE=harness; BIN=seqio_verif ;;
esac

# always rebuild from /repo's current working tree (seq_io is a path dependency: cargo fingerprints its sources)
BUILD_LOG=$(mktemp /tmp/seqio_verif_build.XXXXXX)
if ! (cd "$VERIF/$CRATE" && cargo build --release --offline) >"$BUILD_LOG" 2>&1; then
  if [ "$CRATE" = sched ] && (cd /repo && cargo build --offline) >/dev/null 2>&1; then
    # /repo itself builds, but not with the shuttle shims (feature verif_hooks): e.g. a change to parallel.rs that uses
    # a primitive the shims do not provide. Fall back to the real-thread tier (same drivers and oracles, no hook).
    echo "NOTE: the hooked build (feature verif_hooks) failed; falling back to the real-thread tier (blackbox/)"
    grep -E "^error" -A6 "$BUILD_LOG" | head -20
    CRATE=blackbox; BIN=seqio_verif_blackbox
    if ! (cd "$VERIF/$CRATE" && cargo build --release --offline) >"$BUILD_LOG" 2>&1; then
      echo "INCONCLUSIVE: build of $CRATE failed too"; tail -40 "$BUILD_LOG"; rm -f "$BUILD_LOG"; exit 2
    fi
  else
    echo "INCONCLUSIVE: build of $CRATE failed"
    tail -40 "$BUILD_LOG"
    rm -f "$BUILD_LOG"
    exit 2
  fi
fi
rm -f "$BUILD_LOG"

case "$TIER" in
  quick)    LIMIT=1500 ;;
  thorough) LIMIT=14400 ;;
  replay)   LIMIT=600 ;;
  *) echo "unknown tier $TIER"; exit 2 ;;
esac

if [ "$CRATE" = sched ] || [ "$CRATE" = blackbox ]; then
  # shuttle prints every failing schedule to stderr (also while shrinking); results go to stdout
  ERR_LOG=$(mktemp /tmp/seqio_verif_stderr.XXXXXX)
  timeout -k 10 "$LIMIT" "$VERIF/$CRATE/target/release/$BIN" "$ID" "$TIER" "$@" 2>"$ERR_LOG"
  rc=$?
  if [ $rc -ne 0 ] && [ $rc -ne 1 ]; then tail -20 "$ERR_LOG"; fi
  rm -f "$ERR_LOG"
else
  timeout -k 10 "$LIMIT" "$VERIF/$CRATE/target/release/$BIN" "$ID" "$TIER" "$@"
  rc=$?
fi
if [ $rc -eq 124 ] || [ $rc -eq 137 ]; then
  echo "INCONCLUSIVE: watchdog expired after ${LIMIT}s (not a violation)"
  exit 2
fi
if [ $rc -ne 0 ] && [ $rc -ne 1 ]; then
  echo "INCONCLUSIVE: checker exited with status $rc"
  exit 2
fi

# thorough tier of the byte-string properties: add a coverage-guided libFuzzer campaign with the same oracle
if [ $rc -eq 0 ] && [ "$TIER" = thorough ] && [ -x "$VERIF/fuzzproj/run_fuzz.sh" ]; then
  case "$ID" in
    C01|C02|C03|C06) "$VERIF/fuzzproj/run_fuzz.sh" "$ID"; rc=$? ;;
  esac
fi
exit $rc
