#!/bin/bash
# Build the framework from files on disk only (offline).
set -e
cd "$(dirname "$0")"
export CARGO_NET_OFFLINE=true
(cd harness && cargo build --release --offline)
(cd sched && cargo build --release --offline)
(cd blackbox && cargo build --release --offline)
