//! seqio_verif_sched <ID> quick|thorough | <ID> replay <file>   for ID in C07 C08 C15 C16
//! Deterministic-schedule tier: the real parallel.rs (feature verif_hooks) under shuttle schedulers.

#[path = "../../harness/src/engine.rs"]
mod engine;
/// (the harness crate's counting allocator is not used here; the engine only needs this entry point)
mod alloc {
    pub fn set_last_words(_f: Option<Box<dyn Fn(usize)>>) {}
}
#[path = "../../harness/src/util.rs"]
mod util;
mod oracles;
mod par;
mod props;
mod real;
mod sys;

use engine::Tier;

fn main() {
    let args: Vec<String> = std::env::args().collect();
    if args.len() < 3 {
        eprintln!("usage: seqio_verif_sched <ID> quick|thorough | <ID> replay <file>");
        std::process::exit(2);
    }
    engine::install_panic_hook();
    let id = args[1].as_str();
    if args[2] == "replay" {
        if args.len() < 4 {
            eprintln!("replay needs a file");
            std::process::exit(2);
        }
        std::process::exit(props::replay(id, &args[3]));
    }
    let tier = match args[2].as_str() {
        "quick" => Tier::Quick,
        "thorough" => Tier::Thorough,
        t => {
            eprintln!("unknown tier {}", t);
            std::process::exit(2);
        }
    };
    let code = match id {
        "C07" => props::run_c07(tier),
        "C08" => props::run_c08(tier),
        "C15" => props::run_c15(tier),
        "C16" => props::run_c16(tier),
        _ => {
            eprintln!("unknown property {}", id);
            2
        }
    };
    std::process::exit(code);
}
