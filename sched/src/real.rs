//! Real FASTA/FASTQ readers driven through parallel_fasta(_init) / parallel_fastq(_init) /
//! read_parallel under a shuttle scheduler.

use crate::engine::CheckResult;
use crate::{ensure, fail};
use seq_io::parallel::{parallel_fasta, parallel_fasta_init, parallel_fastq, parallel_fastq_init, parallel_records, read_parallel};
use seq_io::{fasta, fastq};
use serde_derive::{Deserialize, Serialize};
use std::io::Read;
use std::sync::{Arc, Mutex};

#[derive(Clone, Debug, PartialEq, Eq, Hash, Serialize, Deserialize)]
pub struct RealCfg {
    pub fastq: bool,
    pub n_records: u8,
    /// sequence lengths, cycled (different sizes => batches with different numbers of records)
    pub sizes: Vec<u8>,
    /// index of an invalid record (FASTQ: wrong separator; FASTA: only index 0 = invalid start)
    pub bad_at: Option<u8>,
    pub cap: usize,
    pub chunk: u8,
    pub n_threads: u32,
    pub queue_len: usize,
    /// consumer returns after k records
    pub stop_after: Option<u16>,
    /// 0 = parallel_fx, 1 = parallel_fx_init, 2 = read_parallel over RecordSets, 3 = parallel_records (generic per-record function)
    pub api: u8,
    pub reader_init_fails: bool,
    pub data_init_fail_at: Option<u16>,
    pub rset_init_fail_at: Option<u8>,
    pub work_yields: u8,
    /// api 2 only: the reader gets `DoubleUntil(t)` instead of the standard policy (records longer than t make
    /// it grow linearly above the threshold)
    #[serde(default)]
    pub policy_t: Option<u8>,
    /// yields of the consumer per handled record / set (a slow consumer lets the reader run ahead as far as it can)
    #[serde(default)]
    pub consumer_yields: u8,
    /// that many additional tiny records (one base each) follow the others
    #[serde(default)]
    pub many: u16,
    /// blank lines after the last record
    #[serde(default)]
    pub trailing_blank: u8,
    /// the source fails when it is asked for the byte at (position mapped onto 0..=len, error kind selector,
    /// persistent: every later call fails too)
    #[serde(default)]
    pub io_fault: Option<(u16, u8, bool)>,
}

/// (byte position, kind selector, persistent)
pub type Fault = Option<(usize, u8, bool)>;

pub const FAULT_KINDS: [std::io::ErrorKind; 6] = [
    std::io::ErrorKind::Other,
    std::io::ErrorKind::WouldBlock,
    std::io::ErrorKind::TimedOut,
    std::io::ErrorKind::PermissionDenied,
    std::io::ErrorKind::UnexpectedEof,
    std::io::ErrorKind::InvalidData,
];

impl RealCfg {
    pub fn fault(&self, doc_len: usize) -> Fault {
        self.io_fault.map(|(p, k, sticky)| (((p as usize) * (doc_len + 1)) >> 16, k, sticky))
    }
}

/// `DoubleUntil(t)` with a guard: a policy answer that does not grow would make the reader thread spin forever
/// without a scheduling point; the guard turns that into a panic, which the schedule tier reports.
pub struct GuardedDoubleUntil {
    t: usize,
}
impl seq_io::policy::BufPolicy for GuardedDoubleUntil {
    fn grow_to(&mut self, current_size: usize) -> Option<usize> {
        let a = seq_io::policy::DoubleUntil(self.t).grow_to(current_size);
        if let Some(a) = a {
            if a <= current_size {
                panic!("growth policy stalled: DoubleUntil({}).grow_to({}) = {} (the reader thread would never return)", self.t, current_size, a);
            }
        }
        a
    }
}

pub struct Chunked {
    data: Vec<u8>,
    pos: usize,
    chunk: usize,
    /// source position, visible to the consumer side (reader lead, C16)
    progress: Arc<std::sync::atomic::AtomicUsize>,
    fault: Fault,
    fired: bool,
    polls: usize,
    /// true for sources read inside a scheduled execution (they yield to the scheduler when they fail)
    scheduled: bool,
}

impl Chunked {
    pub fn new(data: Vec<u8>, chunk: usize, progress: Arc<std::sync::atomic::AtomicUsize>, fault: Fault, scheduled: bool) -> Chunked {
        Chunked { data, pos: 0, chunk, progress, fault, fired: false, polls: 0, scheduled }
    }
}
impl Read for Chunked {
    fn read(&mut self, buf: &mut [u8]) -> std::io::Result<usize> {
        let mut n = buf.len().min(self.data.len() - self.pos);
        if self.chunk > 0 {
            n = n.min(self.chunk);
        }
        if let Some((p, kind, sticky)) = self.fault {
            if self.pos >= p && (!self.fired || sticky) && !buf.is_empty() {
                self.fired = true;
                self.polls += 1;
                if self.scheduled {
                    crate::sys::yield_now();
                }
                if self.polls > 3000 {
                    panic!("the source was polled {} times after it had started to fail with {:?}: the reader spins on the error instead of reporting it", self.polls, FAULT_KINDS[kind as usize % FAULT_KINDS.len()]);
                }
                return Err(std::io::Error::new(FAULT_KINDS[kind as usize % FAULT_KINDS.len()], "verif-injected-fault"));
            }
            if self.pos < p {
                n = n.min(p - self.pos);
            }
        }
        buf[..n].copy_from_slice(&self.data[self.pos..self.pos + n]);
        self.pos += n;
        self.progress.store(self.pos, std::sync::atomic::Ordering::SeqCst);
        Ok(n)
    }
}

pub fn document(c: &RealCfg) -> Vec<u8> {
    let mut v = Vec::new();
    for i in 0..c.n_records as usize {
        let l = if c.sizes.is_empty() { 4 } else { c.sizes[i % c.sizes.len()] as usize };
        let seq: Vec<u8> = (0..l).map(|k| b"ACGT"[(i + k) % 4]).collect();
        let bad = c.bad_at.map(|b| b as usize) == Some(i);
        if c.fastq {
            v.extend_from_slice(format!("@r{}\n", i).as_bytes());
            v.extend_from_slice(&seq);
            v.extend_from_slice(if bad { b"\n-\n" } else { b"\n+\n" });
            v.extend(std::iter::repeat(b'I').take(l));
            v.push(b'\n');
        } else {
            if bad && i == 0 {
                v.extend_from_slice(b"x\n");
            }
            v.extend_from_slice(format!(">r{}\n", i).as_bytes());
            for line in seq.chunks(5) {
                v.extend_from_slice(line);
                v.push(b'\n');
            }
        }
    }
    for j in 0..c.many as usize {
        let i = c.n_records as usize + j;
        if c.fastq {
            v.extend_from_slice(format!("@r{}\nA\n+\nI\n", i).as_bytes());
        } else {
            v.extend_from_slice(format!(">r{}\nA\n", i).as_bytes());
        }
    }
    for _ in 0..c.trailing_blank {
        v.push(b'\n');
    }
    v
}

fn hash(head: &[u8], seq: &[u8], qual: &[u8]) -> u64 {
    let mut h = 0xcbf29ce484222325u64;
    for part in [head, seq, qual] {
        for b in part {
            h = (h ^ *b as u64).wrapping_mul(0x100000001b3);
        }
        h = (h ^ 0xff).wrapping_mul(0x100000001b3);
    }
    h
}

fn fa_hash(r: &fasta::RefRecord) -> (usize, u64) {
    use fasta::Record;
    let idx = std::str::from_utf8(&r.head()[1..]).ok().and_then(|s| s.parse().ok()).unwrap_or(usize::MAX);
    (idx, hash(r.head(), &r.owned_seq(), b""))
}
fn fq_hash(r: &fastq::RefRecord) -> (usize, u64) {
    use fastq::Record;
    let idx = std::str::from_utf8(&r.head()[1..]).ok().and_then(|s| s.parse().ok()).unwrap_or(usize::MAX);
    (idx, hash(r.head(), r.seq(), r.qual()))
}

/// sequential reference: (idx, hash) of every record in front of the first error, and the error
pub fn sequential(c: &RealCfg) -> (Vec<(usize, u64)>, Option<String>) {
    let doc = document(c);
    let mut recs = Vec::new();
    let mut err = None;
    // (the same source faults as in the parallel run; chunking does not matter for the outcome)
    let fault = c.fault(doc.len());
    let src = Chunked::new(doc, 0, Default::default(), fault, false);
    if c.fastq {
        let mut r = fastq::Reader::with_capacity(src, c.cap);
        while let Some(x) = r.next() {
            match x {
                Ok(rec) => recs.push(fq_hash(&rec)),
                Err(e) => {
                    err = Some(format!("{:?}", e));
                    break;
                }
            }
        }
    } else {
        let mut r = fasta::Reader::with_capacity(src, c.cap);
        while let Some(x) = r.next() {
            match x {
                Ok(rec) => recs.push(fa_hash(&rec)),
                Err(e) => {
                    err = Some(format!("{:?}", e));
                    break;
                }
            }
        }
    }
    (recs, err)
}

/// largest number of records in one record set when the document is read with plain read_record_set()
/// (the reader thread of the parallel functions does exactly that, whatever the schedule)
pub fn max_batch(c: &RealCfg) -> usize {
    let doc = document(c);
    let fault = c.fault(doc.len());
    let src = Chunked::new(doc, c.chunk as usize, Default::default(), fault, false);
    let mut m = 0;
    if c.fastq {
        let mut r = fastq::Reader::with_capacity(src, c.cap);
        let mut set = fastq::RecordSet::default();
        while let Some(Ok(())) = r.read_record_set(&mut set) {
            m = m.max(set.len());
        }
    } else {
        let mut r = fasta::Reader::with_capacity(src, c.cap);
        let mut set = fasta::RecordSet::default();
        while let Some(Ok(())) = r.read_record_set(&mut set) {
            m = m.max(set.len());
        }
    }
    m
}

#[derive(Debug, Clone, PartialEq, Eq)]
pub enum RealE {
    Parse(String),
    ReaderInit,
    DataInit(usize),
    RsetInit(usize),
}
impl From<fasta::Error> for RealE {
    fn from(e: fasta::Error) -> Self {
        RealE::Parse(format!("{:?}", e))
    }
}
impl From<fastq::Error> for RealE {
    fn from(e: fastq::Error) -> Self {
        RealE::Parse(format!("{:?}", e))
    }
}
pub struct Ri;
pub struct Di(usize);
pub struct Si(usize);
impl From<Ri> for RealE {
    fn from(_: Ri) -> Self {
        RealE::ReaderInit
    }
}
impl From<Di> for RealE {
    fn from(e: Di) -> Self {
        RealE::DataInit(e.0)
    }
}
impl From<Si> for RealE {
    fn from(e: Si) -> Self {
        RealE::RsetInit(e.0)
    }
}

/// Per-record output value whose creations and drops are counted per OS thread (under the schedule tier all tasks of an
/// execution run on one OS thread): the number of values ALIVE at the same time is what "memory use independent of
/// the input size" bounds; how often values are created is not promised by C16.
#[derive(Debug)]
pub struct Cnt(pub u64);
thread_local! {
    static CREATED: std::cell::Cell<usize> = const { std::cell::Cell::new(0) };
    static LIVE: std::cell::Cell<usize> = const { std::cell::Cell::new(0) };
    static MAX_LIVE: std::cell::Cell<usize> = const { std::cell::Cell::new(0) };
}
impl Cnt {
    pub fn new() -> Cnt {
        CREATED.with(|c| c.set(c.get() + 1));
        let l = LIVE.with(|c| {
            c.set(c.get() + 1);
            c.get()
        });
        MAX_LIVE.with(|c| c.set(c.get().max(l)));
        Cnt(0)
    }
}
impl Default for Cnt {
    fn default() -> Cnt {
        Cnt::new()
    }
}
impl Drop for Cnt {
    fn drop(&mut self) {
        let _ = LIVE.try_with(|c| c.set(c.get().saturating_sub(1)));
    }
}

#[derive(Default, Debug)]
pub struct RealObs {
    /// (record index, output matches this record, hash)
    pub seen: Vec<(usize, bool, u64)>,
    /// api 2: record indices per received set
    pub sets: Vec<Vec<usize>>,
    pub set_buf_caps: Vec<usize>,
    /// (record index, source position) observed by the consumer when it handles a record (C16: reader lead)
    pub lead: Vec<(usize, usize)>,
    pub data_inits: usize,
    /// api 0 / 3: number of per-record output values created through Default (schedule tier only)
    pub outputs_created: usize,
    /// largest number of per-record output values alive at the same time (schedule tier only)
    pub outputs_max_live: usize,
    pub data_init_failed: bool,
    pub rset_inits: usize,
    pub rset_init_failed: Option<usize>,
    pub recycled_longer: usize,
    pub recycled_shorter: usize,
    pub result: Option<Result<bool, RealE>>,
    pub returned: bool,
    pub late: Option<&'static str>,
}

pub type SharedReal = Arc<Mutex<RealObs>>;

fn late(o: &SharedReal, what: &'static str) {
    let mut g = o.lock().unwrap();
    if g.returned && g.late.is_none() {
        g.late = Some(what);
    }
}

macro_rules! per_record_apis {
    ($c:expr, $obs:expr, $doc:expr, $simple:ident, $init:ident, $rdr:ty, $rec:ty, $hashfn:ident, $mk:expr) => {{
        let c = $c.clone();
        let obs = $obs.clone();
        let (o_w, o_f, o_d, o_s, o_r) = (obs.clone(), obs.clone(), obs.clone(), obs.clone(), obs.clone());
        let stop = c.stop_after;
        let yields = c.work_yields;
        let mut n_seen = 0usize;
        let progress_f = PROGRESS.with(|p| p.borrow().clone());
        let cons_yields = c.consumer_yields;
        let work = move |rec: $rec, d: &mut u64| {
            late(&o_w, "work");
            for _ in 0..yields {
                crate::sys::yield_now();
            }
            *d = $hashfn(&rec).1;
        };
        let mut func = move |rec: $rec, d: &mut u64| {
            late(&o_f, "func");
            let (idx, h) = $hashfn(&rec);
            {
                let mut g = o_f.lock().unwrap();
                g.seen.push((idx, *d == h, h));
                let pos = progress_f.load(std::sync::atomic::Ordering::SeqCst);
                g.lead.push((idx, pos));
            }
            for _ in 0..cons_yields {
                crate::sys::yield_now();
            }
            n_seen += 1;
            if let Some(k) = stop {
                if n_seen >= k as usize {
                    return Some(());
                }
            }
            None
        };
        let res: Result<bool, RealE> = if c.api == 0 {
            let reader: $rdr = $mk($doc.clone(), c.cap, c.chunk, c.fault($doc.len()));
            if stop == Some(0) {
                // "never asks" cannot be expressed with the per-record API: the first record always reaches func
            }
            $simple(reader, c.n_threads, c.queue_len, move |rec: $rec, d: &mut Cnt| work(rec, &mut d.0), move |rec: $rec, d: &mut Cnt| func(rec, &mut d.0)).map(|o| o.is_some()).map_err(RealE::from)
        } else {
            let doc = $doc.clone();
            let (cap, chunk, ri_fails) = (c.cap, c.chunk, c.reader_init_fails);
            let fault = c.fault(doc.len());
            let di_fail = c.data_init_fail_at.map(|j| j as usize);
            let si_fail = c.rset_init_fail_at.map(|j| j as usize);
            $init::<_, RealE, _, Ri, _, Cnt, Di, _, usize, Si, _, _, ()>(
                c.n_threads,
                c.queue_len,
                move || {
                    late(&o_r, "reader_init");
                    if ri_fails {
                        Err(Ri)
                    } else {
                        let r: $rdr = $mk(doc, cap, chunk, fault);
                        Ok(r)
                    }
                },
                move || {
                    late(&o_d, "record_data_init");
                    let mut g = o_d.lock().unwrap();
                    let call = g.data_inits;
                    g.data_inits += 1;
                    if Some(call) == di_fail {
                        g.data_init_failed = true;
                        return Err(Di(call));
                    }
                    drop(g);
                    Ok(Cnt::new())
                },
                move || {
                    late(&o_s, "rset_data_init");
                    let mut g = o_s.lock().unwrap();
                    let call = g.rset_inits;
                    g.rset_inits += 1;
                    if Some(call) == si_fail {
                        g.rset_init_failed = Some(call);
                        return Err(Si(call));
                    }
                    Ok(call)
                },
                move |rec: $rec, d: &mut Cnt, _s: &mut usize| work(rec, &mut d.0),
                move |rec: $rec, d: &mut Cnt, _s: &mut usize| func(rec, &mut d.0),
            )
            .map(|o| o.is_some())
        };
        res
    }};
}

thread_local! {
    /// progress counter of the execution currently being set up on this OS thread (shuttle runs all tasks of an
    /// execution on the runner's thread; the real-thread fallback creates the readers on the calling thread too)
    static PROGRESS: std::cell::RefCell<Arc<std::sync::atomic::AtomicUsize>> = std::cell::RefCell::new(Default::default());
}

fn mk_fa(doc: Vec<u8>, cap: usize, chunk: u8, fault: Fault) -> fasta::Reader<Chunked> {
    let progress = PROGRESS.with(|p| p.borrow().clone());
    fasta::Reader::with_capacity(Chunked::new(doc, chunk as usize, progress, fault, true), cap)
}
fn mk_fq(doc: Vec<u8>, cap: usize, chunk: u8, fault: Fault) -> fastq::Reader<Chunked> {
    let progress = PROGRESS.with(|p| p.borrow().clone());
    fastq::Reader::with_capacity(Chunked::new(doc, chunk as usize, progress, fault, true), cap)
}

/// (index of the last record, source position after the fill) for every batch of sequential plain set reading,
/// plus the source position after the final call that reports the end / the error
pub fn sequential_batches(c: &RealCfg) -> (Vec<(usize, usize)>, usize) {
    let doc = document(c);
    let progress: Arc<std::sync::atomic::AtomicUsize> = Default::default();
    let fault = c.fault(doc.len());
    let src = Chunked::new(doc, c.chunk as usize, progress.clone(), fault, false);
    let mut v = Vec::new();
    let mut n = 0usize;
    let guard = GuardedDoubleUntil { t: c.policy_t.map_or(1 << 23, |t| t.max(1) as usize) };
    if c.fastq {
        let mut r = fastq::Reader::with_capacity(src, c.cap).set_policy(guard);
        let mut set = fastq::RecordSet::default();
        while let Some(Ok(())) = r.read_record_set(&mut set) {
            n += set.len();
            v.push((n - 1, progress.load(std::sync::atomic::Ordering::SeqCst)));
        }
    } else {
        let mut r = fasta::Reader::with_capacity(src, c.cap).set_policy(guard);
        let mut set = fasta::RecordSet::default();
        while let Some(Ok(())) = r.read_record_set(&mut set) {
            n += set.len();
            v.push((n - 1, progress.load(std::sync::atomic::Ordering::SeqCst)));
        }
    }
    (v, progress.load(std::sync::atomic::Ordering::SeqCst))
}

/// One execution; must be called inside shuttle.
pub fn execute_real(c: &RealCfg, obs: &SharedReal) {
    PROGRESS.with(|p| *p.borrow_mut() = Default::default());
    CREATED.with(|k| k.set(0));
    LIVE.with(|k| k.set(0));
    MAX_LIVE.with(|k| k.set(0));
    let doc = document(c);
    let res: Result<bool, RealE> = if c.api == 3 {
        // the generic per-record function over any parallel::Reader whose data set iterates over records
        let stop = c.stop_after;
        let yields = c.work_yields;
        let (o_w, o_f) = (obs.clone(), obs.clone());
        let mut n_seen = 0usize;
        let progress3 = PROGRESS.with(|p| p.borrow().clone());
        let cons_yields3 = c.consumer_yields;
        if c.fastq {
            let fault = c.fault(doc.len());
            let reader = mk_fq(doc, c.cap, c.chunk, fault);
            parallel_records(
                reader,
                c.n_threads,
                c.queue_len,
                move |rec: fastq::RefRecord, d: &mut Cnt| {
                    late(&o_w, "work");
                    for _ in 0..yields {
                        crate::sys::yield_now();
                    }
                    d.0 = fq_hash(&rec).1;
                },
                move |rec: fastq::RefRecord, d: &Cnt| {
                    late(&o_f, "func");
                    let (idx, h) = fq_hash(&rec);
                    {
                        let mut g = o_f.lock().unwrap();
                        g.seen.push((idx, d.0 == h, h));
                        g.lead.push((idx, progress3.load(std::sync::atomic::Ordering::SeqCst)));
                    }
                    for _ in 0..cons_yields3 {
                        crate::sys::yield_now();
                    }
                    n_seen += 1;
                    match stop {
                        Some(k) if n_seen >= k as usize => Some(()),
                        _ => None,
                    }
                },
            )
            .map(|o| o.is_some())
            .map_err(RealE::from)
        } else {
            let fault = c.fault(doc.len());
            let reader = mk_fa(doc, c.cap, c.chunk, fault);
            parallel_records(
                reader,
                c.n_threads,
                c.queue_len,
                move |rec: fasta::RefRecord, d: &mut Cnt| {
                    late(&o_w, "work");
                    for _ in 0..yields {
                        crate::sys::yield_now();
                    }
                    d.0 = fa_hash(&rec).1;
                },
                move |rec: fasta::RefRecord, d: &Cnt| {
                    late(&o_f, "func");
                    let (idx, h) = fa_hash(&rec);
                    {
                        let mut g = o_f.lock().unwrap();
                        g.seen.push((idx, d.0 == h, h));
                        g.lead.push((idx, progress3.load(std::sync::atomic::Ordering::SeqCst)));
                    }
                    for _ in 0..cons_yields3 {
                        crate::sys::yield_now();
                    }
                    n_seen += 1;
                    match stop {
                        Some(k) if n_seen >= k as usize => Some(()),
                        _ => None,
                    }
                },
            )
            .map(|o| o.is_some())
            .map_err(RealE::from)
        }
    } else if c.api <= 1 {
        if c.fastq {
            per_record_apis!(c, obs, doc, parallel_fastq, parallel_fastq_init, fastq::Reader<Chunked>, fastq::RefRecord, fq_hash, mk_fq)
        } else {
            per_record_apis!(c, obs, doc, parallel_fasta, parallel_fasta_init, fasta::Reader<Chunked>, fasta::RefRecord, fa_hash, mk_fa)
        }
    } else {
        // read_parallel over whole record sets; the output vector is computed per set
        let stop = c.stop_after;
        let yields = c.work_yields;
        let o_w = obs.clone();
        let o_f = obs.clone();
        let progress2 = PROGRESS.with(|p| p.borrow().clone());
        let cons_yields2 = c.consumer_yields;
        if c.fastq {
            let fault = c.fault(doc.len());
            let reader = mk_fq(doc, c.cap, c.chunk, fault).set_policy(GuardedDoubleUntil { t: c.policy_t.map_or(1 << 23, |t| t.max(1) as usize) });
            read_parallel(
                reader,
                c.n_threads,
                c.queue_len,
                move |set: &mut fastq::RecordSet| {
                    late(&o_w, "work");
                    for _ in 0..yields {
                        crate::sys::yield_now();
                    }
                    set.into_iter().map(|r| fq_hash(&r).1).collect::<Vec<u64>>()
                },
                move |rsets| {
                    let mut n = 0usize;
                    while let Some(r) = rsets.next() {
                        late(&o_f, "func");
                        let (set, out) = match r {
                            Ok(x) => x,
                            Err(e) => return Err(RealE::from(e)),
                        };
                        let mut g = o_f.lock().unwrap();
                        let mut idxs = Vec::new();
                        let pos_now = progress2.load(std::sync::atomic::Ordering::SeqCst);
                        if let Some(first) = set.into_iter().next() {
                            g.lead.push((fq_hash(&first).0, pos_now));
                        }
                        for (j, rec) in set.into_iter().enumerate() {
                            let (idx, h) = fq_hash(&rec);
                            g.seen.push((idx, out.get(j) == Some(&h), h));
                            idxs.push(idx);
                            n += 1;
                        }
                        if out.len() != idxs.len() {
                            g.seen.push((usize::MAX, false, 0));
                        }
                        g.sets.push(idxs);
                        g.set_buf_caps.push(set.buf_capacity());
                        drop(g);
                        for _ in 0..cons_yields2 {
                            crate::sys::yield_now();
                        }
                        if let Some(k) = stop {
                            if n >= k as usize {
                                return Ok(true);
                            }
                        }
                    }
                    Ok(false)
                },
            )
        } else {
            let fault = c.fault(doc.len());
            let reader = mk_fa(doc, c.cap, c.chunk, fault).set_policy(GuardedDoubleUntil { t: c.policy_t.map_or(1 << 23, |t| t.max(1) as usize) });
            read_parallel(
                reader,
                c.n_threads,
                c.queue_len,
                move |set: &mut fasta::RecordSet| {
                    late(&o_w, "work");
                    for _ in 0..yields {
                        crate::sys::yield_now();
                    }
                    set.into_iter().map(|r| fa_hash(&r).1).collect::<Vec<u64>>()
                },
                move |rsets| {
                    let mut n = 0usize;
                    while let Some(r) = rsets.next() {
                        late(&o_f, "func");
                        let (set, out) = match r {
                            Ok(x) => x,
                            Err(e) => return Err(RealE::from(e)),
                        };
                        let mut g = o_f.lock().unwrap();
                        let mut idxs = Vec::new();
                        let pos_now = progress2.load(std::sync::atomic::Ordering::SeqCst);
                        if let Some(first) = set.into_iter().next() {
                            g.lead.push((fa_hash(&first).0, pos_now));
                        }
                        for (j, rec) in set.into_iter().enumerate() {
                            let (idx, h) = fa_hash(&rec);
                            g.seen.push((idx, out.get(j) == Some(&h), h));
                            idxs.push(idx);
                            n += 1;
                        }
                        if out.len() != idxs.len() {
                            g.seen.push((usize::MAX, false, 0));
                        }
                        g.sets.push(idxs);
                        g.set_buf_caps.push(set.buf_capacity());
                        drop(g);
                        for _ in 0..cons_yields2 {
                            crate::sys::yield_now();
                        }
                        if let Some(k) = stop {
                            if n >= k as usize {
                                return Ok(true);
                            }
                        }
                    }
                    Ok(false)
                },
            )
        }
    };
    let mut g = obs.lock().unwrap();
    g.result = Some(res);
    g.returned = true;
    g.outputs_created = CREATED.with(|k| k.get());
    g.outputs_max_live = MAX_LIVE.with(|k| k.get());
}

/// C16 for the convenience wrappers too (read_parallel, parallel_fasta/fastq, parallel_records take the queue length
/// and pass it on): while the consumer handles a record of batch b, the reader cannot have filled more than the
/// queue_len batches behind it, i.e. the source position is at most the position after batch b + queue_len of
/// sequential reading (the batches of the reader thread are those of sequential plain set reading).
pub fn check_lead(c: &RealCfg, o: &RealObs) -> CheckResult {
    let f = if c.fastq { "fastq" } else { "fasta" };
    if c.api == 1 && (c.reader_init_fails || c.rset_init_fail_at.is_some()) {
        return Ok(());
    }
    let (batches, end_pos) = sequential_batches(c);
    // batches may arrive out of file order (several workers): what bounds the reader is the NUMBER of batches the
    // consumer has received so far (k, including the one it is handling): filled batches <= queue_len + k
    let mut received: Vec<usize> = Vec::new();
    for (idx, pos) in &o.lead {
        let b = match batches.iter().position(|(last, _)| idx <= last) {
            Some(b) => b,
            None => continue,
        };
        if !received.contains(&b) {
            received.push(b);
        }
        let k = received.len();
        let last_filled = c.queue_len + k - 1; // 0-based index of the last batch that can have been filled
        let allowed = if last_filled < batches.len() { batches[last_filled].1 } else { end_pos };
        ensure!(
            *pos <= allowed,
            format!("real/{}/reader-too-far-ahead", f),
            "while the consumer handled record {} (batch {}, the {}. batch it received), the reader had already read {} bytes of the input; with queue length {} it can have filled at most {} batches (source position {})",
            idx,
            b,
            k,
            pos,
            c.queue_len,
            c.queue_len + k,
            allowed
        );
    }
    Ok(())
}

/// Oracle for the real tier (covers the C07 / C08 / C15 / C16 clauses that concern real readers).
pub fn check_real(c: &RealCfg, o: &RealObs) -> CheckResult {
    let f = if c.fastq { "fastq" } else { "fasta" };
    ensure!(o.returned && o.result.is_some(), format!("real/{}/did-not-return", f), "the call did not return");
    if let Some(w) = o.late {
        fail!(format!("real/{}/callback-after-return/{}", f, w), "{} ran after the parallel function had returned", w);
    }
    let (mut seq, seq_err) = sequential(c);
    let mut clean_err: Option<String> = None;
    // the text of the injected source error as the readers report it
    let fault_err: Option<String> = c.io_fault.map(|(_, k, _)| format!("{:?}", fasta::Error::Io(std::io::Error::new(FAULT_KINDS[k as usize % FAULT_KINDS.len()], "verif-injected-fault"))));
    if c.io_fault.is_some() {
        // how many records come before a source error depends on how the reads are split and on the buffer size;
        // what is claimed is that they are leading records of the input: membership is judged against fault-free reading
        let mut clean = c.clone();
        clean.io_fault = None;
        let (s2, e2) = sequential(&clean);
        seq = s2;
        // an invalid record in front of the failing position may be reported instead of the source error, depending
        // on whether the refill that would fail is needed before the record is examined
        clean_err = e2;
    }
    let n = seq.len();
    // every record at most once, with its own output, and it is a record of the input
    let mut count = vec![0usize; n];
    for (idx, ok, h) in &o.seen {
        ensure!(*idx < n && seq[*idx].1 == *h, format!("real/{}/unknown-record", f), "the consumer saw a record (index {}) that sequential reading does not deliver before the first error", idx);
        ensure!(*ok, format!("real/{}/wrong-output-for-record", f), "record {} arrived with an output that the worker did not compute for it (stale recycled value?)", idx);
        count[*idx] += 1;
        ensure!(count[*idx] == 1, format!("real/{}/record-duplicated", f), "record {} reached the consumer twice", idx);
    }
    // records inside a set are in file order and consecutive
    for s in &o.sets {
        ensure!(s.windows(2).all(|w| w[1] == w[0] + 1), format!("real/{}/set-not-in-file-order", f), "a record set holds records {:?}: not consecutive in file order", s);
    }
    let result = o.result.as_ref().unwrap();
    let stopped = matches!(result, Ok(true));
    // init closures: the expectation follows the failures that were observed to happen (rset_data_init is
    // called at most queue_len + 1 times, fewer when the reader finishes early)
    if c.api == 1 {
        match (o.rset_init_failed, c.reader_init_fails) {
            (Some(j), false) => {
                ensure!(*result == Err(RealE::RsetInit(j)), format!("real/{}/rset-init-error-lost", f), "rset_data_init failed at call {} but the call returned {:?}", j, result);
                return Ok(());
            }
            (Some(_), true) => {
                ensure!(result.is_err(), format!("real/{}/init-errors-lost", f), "two init closures failed but the call returned {:?}", result);
                return Ok(());
            }
            (None, true) => {
                ensure!(*result == Err(RealE::ReaderInit), format!("real/{}/reader-init-error-lost", f), "reader_init failed but the call returned {:?}", result);
                return Ok(());
            }
            (None, false) => {}
        }
    }
    // number of data sets, and of per-record output values (each data set recycles its vector of outputs)
    if c.api == 1 {
        ensure!(o.rset_inits <= c.queue_len + 1, format!("real/{}/too-many-data-sets", f), "{} record sets were created, queue_len + 1 = {}", o.rset_inits, c.queue_len + 1);
    }
    if c.api != 2 && crate::sys::SINGLE_OS_THREAD {
        // memory held in per-record outputs: every data set keeps one vector of them, as long as its largest batch so
        // far. How often outputs are created (record_data_init / Default) is NOT promised: a set may release surplus
        // outputs and create them again later; what must not happen is that their number grows with the input.
        let m = max_batch(c);
        ensure!(
            o.outputs_max_live <= (c.queue_len + 1) * m + 1,
            format!("real/{}/per-record-outputs-accumulate", f),
            "{} per-record output values were alive at the same time ({} created for {} records); with {} data sets and at most {} records per set at most {} can be in use",
            o.outputs_max_live,
            o.outputs_created,
            n,
            c.queue_len + 1,
            m,
            (c.queue_len + 1) * m
        );
    }
    match result {
        Ok(true) => {
            ensure!(c.stop_after.is_some(), format!("real/{}/stopped-unasked", f), "the call reports an early stop that the consumer never requested");
        }
        Ok(false) => {
            // ran to the end: nothing may be missing, and there must not have been an error to report
            ensure!(seq_err.is_none(), format!("real/{}/parse-error-lost", f), "sequential reading fails with {:?}, the parallel call returned Ok", seq_err);
            ensure!(!o.data_init_failed, format!("real/{}/data-init-error-lost", f), "record_data_init failed, but the call returned Ok");
            for (i, cnt) in count.iter().enumerate() {
                ensure!(*cnt == 1, format!("real/{}/record-lost", f), "record {} never reached the consumer (call returned Ok(None))", i);
            }
            if c.n_threads == 1 {
                ensure!(o.seen.windows(2).all(|w| w[0].0 < w[1].0), format!("real/{}/single-worker-order", f), "one worker thread, but records arrived out of file order");
            }
        }
        Err(RealE::Parse(e)) => {
            ensure!(
                seq_err.as_deref() == Some(e.as_str()) || (c.io_fault.is_some() && (clean_err.as_deref() == Some(e.as_str()) || fault_err.as_deref() == Some(e.as_str()))),
                format!("real/{}/parse-error-differs-from-sequential", f),
                "parallel reading reports {}, sequential reading reports {:?}",
                e,
                seq_err
            );
        }
        Err(RealE::DataInit(j)) => {
            ensure!(o.data_init_failed && Some(*j) == c.data_init_fail_at.map(|x| x as usize), format!("real/{}/spurious-data-init-error", f), "unexpected {:?}", result);
        }
        Err(e) => fail!(format!("real/{}/unexpected-error", f), "unexpected error {:?}", e),
    }
    if !stopped && seq_err.is_some() && !o.data_init_failed {
        ensure!(matches!(result, Err(RealE::Parse(_))), format!("real/{}/parse-error-lost", f), "sequential reading fails with {:?}, the parallel call returned {:?}", seq_err, result);
    }
    Ok(())
}
