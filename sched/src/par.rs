//! Schedule-controlled executions of the real `parallel.rs` (built with feature `verif_hooks`):
//! configuration, mock reader, instrumentation, one execution under a shuttle scheduler.
//! (DESIGN.md §3.6)

use seq_io::parallel::{read_parallel_init, ParallelRecordsets, Reader};
use serde_derive::{Deserialize, Serialize};
use std::sync::{Arc, Mutex};

#[derive(Clone, Copy, Debug, PartialEq, Eq, Hash, Serialize, Deserialize)]
pub enum Sched {
    Random,
    Pct(u8),
    RoundRobin,
    /// depth-first enumeration of all schedules, at most this many
    Dfs(u32),
}

#[derive(Clone, Copy, Debug, PartialEq, Eq, Hash, Serialize, Deserialize)]
pub enum Consumer {
    /// asks until the end marker (or the error, see `stop_at_error`)
    Drain,
    /// returns after k results (k = 0: never asks)
    StopAfter(u16),
}

#[derive(Clone, Debug, PartialEq, Eq, Hash, Serialize, Deserialize)]
pub struct ParCfg {
    pub n_threads: u32,
    pub queue_len: usize,
    pub n_sets: usize,
    /// per-set number of yields inside the worker function, cycled
    pub work_yields: Vec<u8>,
    /// yields of the consumer after each result
    pub consumer_yields: u8,
    /// yields of the reader inside fill_data
    pub reader_yields: u8,
    pub consumer: Consumer,
    pub stop_at_error: bool,
    /// reader reports an error instead of this set index
    pub reader_err_at: Option<usize>,
    pub reader_init_fails: bool,
    /// dataset_init fails at this call (0-based)
    pub dataset_init_fail_at: Option<usize>,
    /// extra next() calls after the end marker was received
    pub extra_next: u8,
}

#[derive(Clone, Debug, PartialEq, Eq)]
pub enum Evt {
    Init { tag: usize },
    InitFailed { call: usize },
    ReaderInit { ok: bool },
    Fill { idx: usize, tag: usize },
    FillEnd,
    FillErr { idx: usize },
    FillAfterErr,
    Work { idx: usize, tag: usize },
    Recv { idx: Option<usize>, tag: usize, out_ok: bool },
    RecvErr { idx: usize },
    RecvEnd,
    RecvAfterEnd { none: bool },
    Late(&'static str),
}

#[derive(Clone, Debug, PartialEq, Eq)]
pub enum MockE {
    ReaderInit,
    DatasetInit(usize),
}

pub struct RiErr;
pub struct DiErr(pub usize);
impl From<RiErr> for MockE {
    fn from(_: RiErr) -> MockE {
        MockE::ReaderInit
    }
}
impl From<DiErr> for MockE {
    fn from(e: DiErr) -> MockE {
        MockE::DatasetInit(e.0)
    }
}

#[derive(Default, Debug)]
pub struct Obs {
    pub events: Vec<Evt>,
    pub returned: bool,
    pub result: Option<Result<(), MockE>>,
}

pub type SharedObs = Arc<Mutex<Obs>>;

fn rec(obs: &SharedObs, e: Evt) {
    let mut o = obs.lock().unwrap();
    if o.returned {
        let what = match e {
            Evt::Fill { .. } | Evt::FillEnd | Evt::FillErr { .. } | Evt::FillAfterErr => "fill_data",
            Evt::Work { .. } => "work",
            Evt::Init { .. } | Evt::InitFailed { .. } => "dataset_init",
            Evt::ReaderInit { .. } => "reader_init",
            _ => "consumer",
        };
        o.events.push(Evt::Late(what));
    }
    o.events.push(e);
}

pub struct MockSet {
    pub tag: usize,
    pub idx: Option<usize>,
    pub payload: Vec<u32>,
}

#[derive(Debug)]
pub struct MockErr(pub usize);

pub struct MockReader {
    n_sets: usize,
    next: usize,
    err_at: Option<usize>,
    errored: bool,
    yields: u8,
    obs: SharedObs,
}

pub fn out_of(idx: usize, payload: &[u32]) -> u64 {
    let mut h = 0xcbf29ce484222325u64 ^ (idx as u64).wrapping_mul(0x100000001b3);
    for p in payload {
        h = (h ^ *p as u64).wrapping_mul(0x100000001b3);
    }
    h
}

impl Reader for MockReader {
    type DataSet = MockSet;
    type Err = MockErr;
    fn fill_data(&mut self, d: &mut MockSet) -> Option<Result<(), MockErr>> {
        for _ in 0..self.yields {
            crate::sys::yield_now();
        }
        if self.errored {
            rec(&self.obs, Evt::FillAfterErr);
        }
        if Some(self.next) == self.err_at {
            self.errored = true;
            rec(&self.obs, Evt::FillErr { idx: self.next });
            return Some(Err(MockErr(self.next)));
        }
        if self.next >= self.n_sets {
            rec(&self.obs, Evt::FillEnd);
            return None;
        }
        let idx = self.next;
        self.next += 1;
        d.idx = Some(idx);
        d.payload.clear();
        d.payload.extend((0..(idx % 5) as u32).map(|k| k * 7 + idx as u32));
        rec(&self.obs, Evt::Fill { idx, tag: d.tag });
        Some(Ok(()))
    }
}

/// One execution of `read_parallel_init` with the mock reader. Must be called inside shuttle.
pub fn execute_mock(cfg: &ParCfg, obs: &SharedObs) {
    let o_ri = obs.clone();
    let o_di = obs.clone();
    let o_w = obs.clone();
    let o_c = obs.clone();
    let o_r = obs.clone();
    let cfg_r = cfg.clone();
    let cfg_w = cfg.clone();
    let cfg_c = cfg.clone();
    let mut init_calls = 0usize;
    let fail_at = cfg.dataset_init_fail_at;
    let res: Result<(), MockE> = read_parallel_init::<MockReader, MockE, _, RiErr, u64, _, DiErr, _, _, ()>(
        cfg.n_threads,
        cfg.queue_len,
        move || {
            if cfg_r.reader_init_fails {
                rec(&o_ri, Evt::ReaderInit { ok: false });
                Err(RiErr)
            } else {
                rec(&o_ri, Evt::ReaderInit { ok: true });
                Ok(MockReader { n_sets: cfg_r.n_sets, next: 0, err_at: cfg_r.reader_err_at, errored: false, yields: cfg_r.reader_yields, obs: o_r })
            }
        },
        move || {
            let call = init_calls;
            init_calls += 1;
            if Some(call) == fail_at {
                rec(&o_di, Evt::InitFailed { call });
                return Err(DiErr(call));
            }
            rec(&o_di, Evt::Init { tag: call });
            Ok(MockSet { tag: call, idx: None, payload: Vec::new() })
        },
        move |set: &mut MockSet| {
            let idx = set.idx.unwrap_or(usize::MAX);
            let y = if cfg_w.work_yields.is_empty() { 0 } else { cfg_w.work_yields[idx % cfg_w.work_yields.len()] };
            for _ in 0..y {
                crate::sys::yield_now();
            }
            rec(&o_w, Evt::Work { idx, tag: set.tag });
            out_of(idx, &set.payload)
        },
        move |rsets: &mut ParallelRecordsets<MockSet, MockErr, u64>| {
            let mut got = 0usize;
            loop {
                if let Consumer::StopAfter(k) = cfg_c.consumer {
                    if got >= k as usize {
                        break;
                    }
                }
                match rsets.next() {
                    None => {
                        rec(&o_c, Evt::RecvEnd);
                        for _ in 0..cfg_c.extra_next {
                            let none = rsets.next().is_none();
                            rec(&o_c, Evt::RecvAfterEnd { none });
                        }
                        break;
                    }
                    Some(Ok((set, out))) => {
                        let ok = set.idx.map_or(false, |i| out == out_of(i, &set.payload));
                        rec(&o_c, Evt::Recv { idx: set.idx, tag: set.tag, out_ok: ok });
                        got += 1;
                    }
                    Some(Err(e)) => {
                        rec(&o_c, Evt::RecvErr { idx: e.0 });
                        got += 1;
                        if cfg_c.stop_at_error {
                            break;
                        }
                    }
                }
                for _ in 0..cfg_c.consumer_yields {
                    crate::sys::yield_now();
                }
            }
        },
    );
    let mut o = obs.lock().unwrap();
    o.result = Some(res);
    o.returned = true;
}

pub use crate::sys::run_under;
