//! C07, C08, C15, C16 over schedule-controlled executions.

use crate::engine::{boxed, CheckResult, Ctx, Failure, Prop, Run, Tier};
use crate::oracles::{delivery, faultless, reader_error, recycling, termination};
use crate::par::{execute_mock, run_under, Consumer, Evt, Obs, ParCfg, Sched, SharedObs};
use crate::real::{check_lead, check_real, execute_real, RealCfg, RealObs, SharedReal};
use crate::util::h64;
use proptest::collection::vec;
use proptest::prelude::*;
use serde_derive::{Deserialize, Serialize};
use std::path::Path;
use std::sync::{Arc, Mutex};

#[derive(Clone, Copy, Debug, PartialEq, Eq)]
pub enum Kind {
    C07,
    C08,
    C15,
    C16,
}

impl Kind {
    fn id(self) -> &'static str {
        match self {
            Kind::C07 => "C07",
            Kind::C08 => "C08",
            Kind::C15 => "C15",
            Kind::C16 => "C16",
        }
    }
}

#[derive(Clone, Debug, Serialize, Deserialize, Hash)]
pub struct MockCase {
    pub cfg: ParCfg,
    pub sched: Sched,
    pub seed: u64,
    /// schedules per (variant of the) configuration
    pub schedules: u16,
}

pub struct Mock {
    pub kind: Kind,
    pub max_sets: usize,
    pub schedules: u16,
}

fn sched_strategy() -> BoxedStrategy<Sched> {
    prop_oneof![4 => Just(Sched::Random), 4 => (1u8..=5).prop_map(Sched::Pct), 1 => Just(Sched::RoundRobin)].boxed()
}

fn base_cfg(kind: Kind, max_sets: usize) -> BoxedStrategy<ParCfg> {
    // queue lengths: mostly 1..4; also 5..12 and - where the number of variants per configuration allows it - queues
    // of 60..70 and 125..140 data sets (channel capacities, counters)
    let queue = match kind {
        Kind::C07 | Kind::C16 => prop_oneof![20 => 1usize..=4, 6 => 5usize..=12, 1 => 60usize..=70, 1 => 125usize..=140].boxed(),
        Kind::C08 | Kind::C15 => prop_oneof![10 => 1usize..=4, 3 => 5usize..=12].boxed(),
    };
    let scale_sets = matches!(kind, Kind::C07 | Kind::C16);
    (1u32..=4, queue, 0usize..=max_sets, any::<u16>(), vec(0u8..4, 0..4), 0u8..3, 0u8..2, Just(0u8))
        .prop_map(move |(n_threads, queue_len, n_sets, raw, work_yields, consumer_yields, reader_yields, extra_next)| ParCfg {
            n_threads,
            queue_len,
            // long queues need inputs with more sets than data sets to be interesting
            n_sets: if queue_len > 12 {
                queue_len - 3 + raw as usize % (queue_len + 12)
            } else if queue_len > 4 && scale_sets {
                raw as usize % (2 * queue_len + 6).max(max_sets + 1)
            } else {
                n_sets
            },
            work_yields,
            consumer_yields,
            reader_yields,
            consumer: Consumer::Drain,
            stop_at_error: false,
            reader_err_at: None,
            reader_init_fails: false,
            dataset_init_fail_at: None,
            extra_next,
        })
        .boxed()
}

/// the fault / consumer dimensions enumerated for one base configuration
pub fn variants(kind: Kind, base: &ParCfg) -> Vec<ParCfg> {
    let mut v = Vec::new();
    match kind {
        Kind::C07 => v.push(base.clone()),
        Kind::C16 => {
            v.push(base.clone());
            let mut c = base.clone();
            c.consumer = Consumer::StopAfter((base.n_sets / 2) as u16);
            v.push(c);
        }
        Kind::C08 => {
            v.push(base.clone());
            // consumer stops after k results, for every k (k = 0: never asks)
            for k in 0..=base.n_sets + 1 {
                let mut c = base.clone();
                c.consumer = Consumer::StopAfter(k as u16);
                v.push(c);
            }
            // a draining consumer that asks again after it has seen the end marker (once, twice): the answer is
            // "nothing more" and the call still returns
            for x in 1..=2u8 {
                let mut c = base.clone();
                c.extra_next = x;
                v.push(c);
            }
            // reader error at every set index, draining and early-stopping consumers
            for e in 0..=base.n_sets {
                for (cons, stop) in [(Consumer::Drain, false), (Consumer::Drain, true), (Consumer::StopAfter((e / 2) as u16), false)] {
                    let mut c = base.clone();
                    c.reader_err_at = Some(e);
                    c.consumer = cons;
                    c.stop_at_error = stop;
                    v.push(c);
                }
                // ... and one that drains past the error up to the end marker and asks once more
                let mut c = base.clone();
                c.reader_err_at = Some(e);
                c.extra_next = 1;
                v.push(c);
            }
            // each initialisation closure failing at each of its calls
            let mut c = base.clone();
            c.reader_init_fails = true;
            v.push(c.clone());
            c.consumer = Consumer::StopAfter(0);
            v.push(c);
            for j in 0..=base.queue_len {
                let mut c = base.clone();
                c.dataset_init_fail_at = Some(j);
                v.push(c.clone());
                c.reader_init_fails = true;
                v.push(c);
            }
        }
        Kind::C15 => {
            for e in 0..=base.n_sets {
                for (cons, stop) in [(Consumer::Drain, false), (Consumer::Drain, true), (Consumer::StopAfter(e as u16), false), (Consumer::StopAfter((e + 1) as u16), false)] {
                    let mut c = base.clone();
                    c.reader_err_at = Some(e);
                    c.consumer = cons;
                    c.stop_at_error = stop;
                    v.push(c);
                }
            }
            let mut c = base.clone();
            c.reader_init_fails = true;
            v.push(c);
            for j in 0..=base.queue_len {
                let mut c = base.clone();
                c.dataset_init_fail_at = Some(j);
                v.push(c);
            }
        }
    }
    v
}

fn oracle(kind: Kind, cfg: &ParCfg, o: &Obs) -> CheckResult {
    // every property needs the call to have returned cleanly before its own clause can be judged
    termination(cfg, o)?;
    match kind {
        Kind::C07 => {
            if faultless(cfg) && cfg.consumer == Consumer::Drain {
                delivery(cfg, o)?;
            }
        }
        Kind::C08 => {}
        Kind::C15 => reader_error(cfg, o)?,
        Kind::C16 => recycling(cfg, o)?,
    }
    Ok(())
}

fn classify(kind: Kind, cfg: &ParCfg, o: &Obs, ctx: &mut Ctx) -> bool {
    let order: Vec<usize> = o.events.iter().filter_map(|e| if let Evt::Recv { idx: Some(i), .. } = e { Some(*i) } else { None }).collect();
    let out_of_order = order.windows(2).any(|w| w[0] > w[1]);
    if out_of_order {
        ctx.class("sets completed out of file order");
    }
    let fills = o.events.iter().filter(|e| matches!(e, Evt::Fill { .. })).count();
    let recvd = order.len();
    let stopped_early = matches!(cfg.consumer, Consumer::StopAfter(_)) && fills > recvd;
    if stopped_early {
        ctx.class("consumer stopped while sets were still in a worker or a channel");
    }
    if cfg.consumer == Consumer::StopAfter(0) {
        ctx.class("consumer never asks");
    }
    if cfg.extra_next > 0 && o.events.iter().any(|e| matches!(e, Evt::RecvAfterEnd { .. })) {
        ctx.class("consumer asks again after the end marker");
    }
    if cfg.reader_err_at.is_some() {
        ctx.class("reader error injected");
    }
    if cfg.reader_init_fails {
        ctx.class("reader_init fails");
    }
    if cfg.dataset_init_fail_at.is_some() {
        ctx.class("dataset_init fails");
    }
    if cfg.n_sets > cfg.queue_len + 1 {
        ctx.class("more sets than data sets (recycling happens)");
    }
    if cfg.n_sets == 0 {
        ctx.class("empty input");
    }
    if cfg.queue_len > 12 {
        ctx.class("queue length 60..140");
    } else if cfg.queue_len > 4 {
        ctx.class("queue length 5..12");
    }
    match kind {
        Kind::C07 => cfg.n_sets >= 2 && (out_of_order || cfg.n_threads >= 2 || cfg.n_sets > cfg.queue_len + 1),
        Kind::C08 => stopped_early || !faultless(cfg) || cfg.consumer == Consumer::StopAfter(0) || cfg.extra_next > 0,
        Kind::C15 => !faultless(cfg),
        Kind::C16 => cfg.n_sets > cfg.queue_len + 1,
    }
}

impl Prop for Mock {
    type Case = MockCase;
    fn strategy(&self, _tier: Tier) -> BoxedStrategy<MockCase> {
        let s = self.schedules;
        boxed((base_cfg(self.kind, self.max_sets), sched_strategy(), any::<u64>()).prop_map(move |(cfg, sched, seed)| MockCase { cfg, sched, seed, schedules: s }))
    }

    fn check(&self, c: &MockCase, ctx: &mut Ctx) -> CheckResult {
        let kind = self.kind;
        for (vi, cfg) in variants(kind, &c.cfg).into_iter().enumerate() {
            // one shuttle runner per variant: `schedules` executions under one seeded scheduler
            let seed = h64(&(c.seed, vi as u64));
            let n = if matches!(c.sched, Sched::RoundRobin | Sched::Dfs(_)) { 1 } else { c.schedules.max(1) as usize };
            let done: Arc<Mutex<Vec<Obs>>> = Arc::new(Mutex::new(Vec::new()));
            let fail: Arc<Mutex<Option<(usize, Failure, String)>>> = Arc::new(Mutex::new(None));
            let (d2, f2, cfg2) = (done.clone(), fail.clone(), cfg.clone());
            let r = run_under(c.sched, seed, n, move || {
                let obs: SharedObs = Arc::new(Mutex::new(Obs::default()));
                execute_mock(&cfg2, &obs);
                let o = std::mem::take(&mut *obs.lock().unwrap());
                let verdict = oracle(kind, &cfg2, &o);
                let idx = {
                    let mut d = d2.lock().unwrap();
                    d.push(o);
                    d.len() - 1
                };
                if let Err(f) = verdict {
                    let ev = format!("{:?}", d2.lock().unwrap()[idx].events);
                    let sig = f.sig.clone();
                    *f2.lock().unwrap() = Some((idx, f, ev));
                    panic!("oracle violated: {}", sig);
                }
            });
            let executed = done.lock().unwrap().len();
            if ctx.counting {
                ctx.evaluations += executed.max(1) as u64;
            }
            if let Some((idx, f, ev)) = fail.lock().unwrap().take() {
                return Err(Failure::new(f.sig, format!("variant {} = {:?}, execution {} of scheduler {:?} seeded {}: {}\n  events: {}", vi, cfg, idx, c.sched, seed, f.msg, ev)));
            }
            if let Err(f) = r {
                return Err(Failure::new(f.sig, format!("variant {} = {:?}, execution {} of scheduler {:?} seeded {}: {}", vi, cfg, executed, c.sched, seed, f.msg)));
            }
            let obs_list = std::mem::take(&mut *done.lock().unwrap());
            for (j, o) in obs_list.iter().enumerate() {
                if classify(kind, &cfg, o, ctx) {
                    ctx.nontrivial(&(&cfg, c.sched, seed, j), &serde_json::json!({"config": cfg, "scheduler": c.sched, "scheduler_seed": seed, "execution": j, "events": format!("{:?}", o.events)}));
                }
            }
        }
        Ok(())
    }
}

// ------------------------------------------------------------------------------------------------
// real readers

#[derive(Clone, Debug, Serialize, Deserialize, Hash)]
pub struct RealCase {
    pub cfg: RealCfg,
    pub sched: Sched,
    pub seed: u64,
    pub schedules: u16,
}

pub struct Real {
    pub kind: Kind,
    pub schedules: u16,
}

impl Prop for Real {
    type Case = RealCase;
    fn strategy(&self, _tier: Tier) -> BoxedStrategy<RealCase> {
        let kind = self.kind;
        let s = self.schedules;
        let cfg = (
            (any::<bool>(), if kind == Kind::C16 { 0u8..80 } else { 0u8..14 }, vec(prop_oneof![5 => 0u8..30, 1 => 30u8..255], 1..5), 3usize..48, 0u8..6, prop::option::weighted(0.5, 1u8..64)),
            (1u32..=3, prop_oneof![6 => 1usize..=3, 2 => 4usize..=10], 0u8..4, 0u8..3, prop_oneof![2 => Just(0u8), 1 => 1u8..4, 1 => 4u8..12]),
            (prop_oneof![12 => Just(0u16), 1 => 1000u16..3000], prop_oneof![3 => Just(0u8), 1 => 1u8..7], prop::option::weighted(0.25, (any::<u16>(), 0u8..6, any::<bool>())), any::<bool>()),
            (prop::option::weighted(0.5, 0u8..14), prop::option::weighted(0.4, 0u16..12), any::<bool>(), prop::option::weighted(0.5, 0u16..10), prop::option::weighted(0.5, 0u8..4)),
        )
            .prop_map(move |((fastq, n_records, sizes, cap, chunk, policy_t), (n_threads, queue_len, api, work_yields, consumer_yields), (many, trailing_blank, io_fault, many_small_cap), (bad, stop, ri, di, si))| {
                let mut c = RealCfg {
                    fastq,
                    n_records,
                    sizes,
                    bad_at: None,
                    // thousands of tiny records: a buffer that holds > 1024 of them per batch, or (C16) a small one
                    cap: if many > 0 && !(many_small_cap && kind == Kind::C16) { 8192 + cap * 1000 } else if many > 0 { 1024 + cap * 20 } else { cap },
                    chunk: if many > 0 { 0 } else { chunk },
                    many,
                    trailing_blank,
                    // source faults only where the clause under test is about errors / termination
                    io_fault: if matches!(kind, Kind::C08 | Kind::C15) { io_fault } else { None },
                    n_threads,
                    queue_len,
                    stop_after: None,
                    api,
                    reader_init_fails: false,
                    data_init_fail_at: None,
                    rset_init_fail_at: None,
                    work_yields,
                    policy_t: if api == 2 { policy_t } else { None },
                    consumer_yields,
                };
                match kind {
                    Kind::C07 | Kind::C16 => {}
                    Kind::C08 => {
                        c.stop_after = stop;
                        c.bad_at = bad.filter(|b| *b < n_records).map(|b| if fastq { b } else { 0 });
                        if api == 1 {
                            c.reader_init_fails = ri && di.is_none();
                            c.data_init_fail_at = di;
                            c.rset_init_fail_at = si.filter(|_| !ri);
                        }
                    }
                    Kind::C15 => {
                        // exactly one kind of fault per case
                        let which = (bad.is_some() as u8) + 2 * (ri as u8);
                        match (api, which % 4) {
                            (1, 2) => c.reader_init_fails = true,
                            (1, 3) => c.data_init_fail_at = di.or(Some(0)),
                            (1, 0) if si.is_some() => c.rset_init_fail_at = si,
                            _ => c.bad_at = Some(bad.unwrap_or(0) % n_records.max(1)).map(|b| if fastq { b } else { 0 }),
                        }
                        c.stop_after = None;
                    }
                }
                c
            });
        boxed((cfg, sched_strategy(), any::<u64>()).prop_map(move |(cfg, sched, seed)| RealCase { cfg, sched, seed, schedules: s }))
    }

    fn check(&self, c: &RealCase, ctx: &mut Ctx) -> CheckResult {
        let seed = h64(&(c.seed, 0u64));
        let n = if matches!(c.sched, Sched::RoundRobin | Sched::Dfs(_)) { 1 } else { c.schedules.max(1) as usize };
        let done: Arc<Mutex<Vec<RealObs>>> = Arc::new(Mutex::new(Vec::new()));
        let fail: Arc<Mutex<Option<(usize, Failure, String)>>> = Arc::new(Mutex::new(None));
        let (d2, f2, cfg2) = (done.clone(), fail.clone(), c.cfg.clone());
        let kind = self.kind;
        let r = run_under(c.sched, seed, n, move || {
            let obs: SharedReal = Arc::new(Mutex::new(RealObs::default()));
            execute_real(&cfg2, &obs);
            let o = std::mem::take(&mut *obs.lock().unwrap());
            let mut verdict = check_real(&cfg2, &o);
            if verdict.is_ok() && kind == Kind::C16 {
                verdict = check_lead(&cfg2, &o);
            }
            if verdict.is_ok() && kind == Kind::C16 {
                // record-set buffers do not grow per batch
                let max_cap = o.set_buf_caps.iter().copied().max().unwrap_or(0);
                let doc_len = crate::real::document(&cfg2).len();
                let bound = 4 * cfg2.cap.max(2 * (cfg2.sizes.iter().copied().max().unwrap_or(0) as usize * 2 + 16)) + 16;
                if max_cap > bound.max(doc_len + 16) {
                    verdict = Err(Failure::new("real/record-set-buffer-grows", format!("a record set buffer reached capacity {} (reader capacity {}, document {} bytes)", max_cap, cfg2.cap, doc_len)));
                }
            }
            let idx = {
                let mut d = d2.lock().unwrap();
                d.push(o);
                d.len() - 1
            };
            if let Err(f) = verdict {
                let ev = format!("{:?}", d2.lock().unwrap()[idx]);
                let sig = f.sig.clone();
                *f2.lock().unwrap() = Some((idx, f, ev));
                panic!("oracle violated: {}", sig);
            }
        });
        let executed = done.lock().unwrap().len();
        if ctx.counting {
            ctx.evaluations += executed.max(1) as u64;
        }
        if let Some((idx, f, ev)) = fail.lock().unwrap().take() {
            return Err(Failure::new(f.sig, format!("execution {} of scheduler {:?} seeded {}: {}\n  observed: {}", idx, c.sched, seed, f.msg, ev)));
        }
        if let Err(f) = r {
            return Err(Failure::new(f.sig, format!("execution {} of scheduler {:?} seeded {}: {}", executed, c.sched, seed, f.msg)));
        }
        let obs_list = std::mem::take(&mut *done.lock().unwrap());
        for (j, o) in obs_list.iter().enumerate() {
            ctx.class(match c.cfg.api {
                0 => "api: parallel_fasta/parallel_fastq",
                1 => "api: parallel_fasta_init/parallel_fastq_init",
                2 => "api: read_parallel over RecordSets",
                _ => "api: parallel_records",
            });
            let n_sets = o.sets.len();
            if o.sets.windows(2).any(|w| w[0].len() != w[1].len()) {
                ctx.class("consecutive record sets of different sizes (recycled per-record vectors longer/shorter)");
            }
            if o.seen.windows(2).any(|w| w[0].0 > w[1].0) {
                ctx.class("records arrived out of file order");
            }
            if o.sets.iter().any(|s| s.len() > 1024) {
                ctx.class("a record set with more than 1024 records");
            }
            if c.cfg.trailing_blank > 0 {
                ctx.class("blank lines after the last record");
            }
            if let Some((_, k, sticky)) = c.cfg.io_fault {
                ctx.class(&format!("source fails with {:?}{}", crate::real::FAULT_KINDS[k as usize % crate::real::FAULT_KINDS.len()], if sticky { " (persistent)" } else { "" }));
            }
            if c.cfg.queue_len > 3 {
                ctx.class("queue length 4..10");
            }
            if matches!(o.result, Some(Err(_))) {
                ctx.class("call returned an error");
            }
            if c.cfg.n_records >= 2 || n_sets >= 2 {
                ctx.nontrivial(&(&c.cfg, c.sched, seed, j), &serde_json::json!({"config": c.cfg, "scheduler": c.sched, "scheduler_seed": seed, "execution": j, "result": format!("{:?}", o.result), "records_seen": o.seen.len()}));
            }
        }
        Ok(())
    }
}

// ------------------------------------------------------------------------------------------------

fn dfs_tiny(run: &mut Run, kind: Kind, max_iter: u32) {
    // bounded depth-first enumeration of ALL schedules of tiny configurations
    let mut cfgs = Vec::new();
    for n_sets in 0..=2usize {
        let base = ParCfg {
            n_threads: 1,
            queue_len: 1,
            n_sets,
            work_yields: vec![],
            consumer_yields: 0,
            reader_yields: 0,
            consumer: Consumer::Drain,
            stop_at_error: false,
            reader_err_at: None,
            reader_init_fails: false,
            dataset_init_fail_at: None,
            extra_next: 0,
        };
        for v in variants(kind, &base) {
            if !cfgs.contains(&v) {
                cfgs.push(v);
            }
        }
    }
    let space = format!("all interleavings (shuttle DFS, capped at {} schedules per configuration) of every fault/consumer variant of configurations with 1 worker thread, queue length 1, 0..=2 sets", max_iter);
    run.exhaustive("dfs-tiny-configurations", &space, |ctx| {
        let mut all_complete = true;
        for cfg in cfgs {
            let fail: Arc<Mutex<Option<Failure>>> = Arc::new(Mutex::new(None));
            let (f2, cfg2) = (fail.clone(), cfg.clone());
            let r = run_under(Sched::Dfs(max_iter), 0, 1, move || {
                let obs: SharedObs = Arc::new(Mutex::new(Obs::default()));
                execute_mock(&cfg2, &obs);
                let o = obs.lock().unwrap();
                if let Err(f) = oracle(kind, &cfg2, &o) {
                    *f2.lock().unwrap() = Some(Failure::new(f.sig.clone(), format!("{}\n  events: {:?}", f.msg, o.events)));
                    panic!("oracle violated: {}", f.sig);
                }
            });
            let case = MockCase { cfg: cfg.clone(), sched: Sched::Dfs(max_iter), seed: 0, schedules: 1 };
            match r {
                Ok(n) => {
                    ctx.evaluations += n as u64;
                    if n as u32 >= max_iter {
                        all_complete = false;
                        ctx.class("DFS hit the schedule cap (not exhaustive for that configuration)");
                    } else {
                        ctx.class("DFS enumerated every schedule of the configuration");
                    }
                    ctx.nontrivial(&(&cfg, "dfs"), &serde_json::json!({"config": cfg, "scheduler": "dfs", "schedules": n}));
                }
                Err(f) => {
                    let f = fail.lock().unwrap().take().unwrap_or(f);
                    return Err((serde_json::to_value(&case).unwrap(), Failure::new(f.sig, format!("DFS over {:?}: {}", cfg, f.msg))));
                }
            }
        }
        if !all_complete {
            // reported through the class counter; the flag below is set by the engine from Ok(())
        }
        Ok(())
    });
}

const ASSUME: [&str; 3] = [
    "the channel / scoped-thread / thread-pool primitives are shuttle re-implementations with the API and protocol of std::sync::mpsc, crossbeam_utils::thread::scope and scoped_threadpool 0.1.9 (src/verif_hooks.rs in /repo, feature verif_hooks); the body of parallel.rs is the real code",
    "schedules are sampled (random, PCT depth 1..5, round robin) and enumerated exhaustively only for the tiny DFS scope; no proof of absence",
    "fault dimensions (consumer stops after k for every k, reader error at every set, every init closure at every call) are enumerated per generated base configuration",
];

fn rule(kind: Kind) -> String {
    let common = "cases = (base configuration: worker threads 1..4, queue length 1..4 (less often 5..12, and for C07 / C16 rarely 60..70 or 125..140 with correspondingly many sets), number of sets, per-set worker yields, consumer/reader yields; scheduler in {random, PCT depth 1..5, round robin}; scheduler seed); every execution runs the real read_parallel_init / parallel_fasta(_init) / parallel_fastq(_init) under shuttle with an instrumented mock reader (tagged data sets, content-dependent outputs) or the real readers over generated documents whose batches have different sizes (1 in 13: additionally 1000..3000 tiny records read with a buffer of 8..56 KiB, i.e. batches of more than 1024 records; 1 in 4: 1..6 blank lines after the last record; C08 / C15, 1 in 4: the source starts to fail at a generated byte position with Other / WouldBlock / TimedOut / PermissionDenied / UnexpectedEof / InvalidData, once or persistently - a source polled 3000 times after a persistent error counts as a spinning reader). evaluations = executions (configuration variant x schedule). ";
    let own = match kind {
        Kind::C07 => "Oracle: with a draining consumer every set / record reaches the consumer exactly once with the output computed for it, records inside a set in file order, sets in file order with one worker, worker saw each set once, end marker once. Non-trivial = >= 2 sets and (out-of-order completion, >= 2 workers, or recycling).",
        Kind::C08 => "Per base configuration the consumer behaviours (drain; drain and ask once / twice more after the end marker; stop after k results for every k in 0..=sets+1), a reader error at every set index and every init closure failing at each of its calls are enumerated. Oracle: shuttle reports no deadlock and no step-bound overrun, the call returns the expected result, and no callback runs after it returned. Non-trivial = consumer stopped with sets in flight, or a fault, or a consumer that never asks, or one that asks again after the end.",
        Kind::C15 => "Per base configuration: reader error at every set index x {draining, stop at error, stop after k}, reader_init failing, dataset_init failing at each call; real readers with an invalid record at a generated index and failing reader_init / record_data_init / rset_data_init. Oracle: error received exactly once, no set from behind it, earlier sets at most once (all of them + end marker when draining), init failures come back as Err, parse error equals the sequential one. Non-trivial = every execution with a fault.",
        Kind::C16 => "Long inputs (up to hundreds of sets), slow and fast consumers. Oracle: dataset_init called at most queue_len + 1 times, every data set seen anywhere was created by it, at every fill: fills <= queue_len + min(received + 1, results finished by the workers) (the +1 only absorbs the lag of the consumer's own log), per-record output values alive at the same time at most (queue_len + 1) x (largest set) (creations minus drops counted by the output type; how often outputs are created is not bounded), record-set buffers bounded. Non-trivial = more sets than data sets (recycling happens).",
    };
    format!("{}{} Distinct = hash(configuration variant, scheduler, schedule seed).", common, own)
}

fn run_kind(kind: Kind, tier: Tier) -> i32 {
    let level = match kind {
        Kind::C08 | Kind::C15 => "fault_enumeration",
        _ => "exploration",
    };
    let mut run = Run::new(kind.id(), tier, level);
    let (max_sets, mock_cases, mock_sched, real_cases, real_sched) = match (kind, tier) {
        (Kind::C07, Tier::Quick) => (8, 8_000, 20, 6_000, 10),
        (Kind::C07, Tier::Thorough) => (10, 300_000, 40, 300_000, 20),
        (Kind::C08, Tier::Quick) => (5, 1_200, 4, 6_000, 10),
        (Kind::C08, Tier::Thorough) => (6, 60_000, 8, 300_000, 20),
        (Kind::C15, Tier::Quick) => (5, 1_500, 4, 6_000, 10),
        (Kind::C15, Tier::Thorough) => (6, 60_000, 8, 300_000, 20),
        (Kind::C16, Tier::Quick) => (60, 3_000, 6, 4_000, 8),
        (Kind::C16, Tier::Thorough) => (300, 60_000, 8, 150_000, 10),
    };
    let m = Mock { kind, max_sets, schedules: mock_sched };
    run.replays("mock-reader", &m);
    run.extra.insert("schedule_tier".into(), serde_json::json!(crate::sys::TIER_NAME));
    let d = crate::sys::WORK_DIVISOR;
    run.generated("mock-reader", &m, tier.pick(mock_cases / d, mock_cases / d));
    let r = Real { kind, schedules: real_sched };
    run.replays("real-readers", &r);
    run.generated("real-readers", &r, tier.pick(real_cases / d, real_cases / d));
    if matches!(kind, Kind::C07 | Kind::C08 | Kind::C15) {
        dfs_tiny(&mut run, kind, if tier == Tier::Quick { 3_000 } else { 200_000 });
    }
    run.finish(&rule(kind), &ASSUME)
}

pub fn run_c07(tier: Tier) -> i32 {
    run_kind(Kind::C07, tier)
}
pub fn run_c08(tier: Tier) -> i32 {
    run_kind(Kind::C08, tier)
}
pub fn run_c15(tier: Tier) -> i32 {
    run_kind(Kind::C15, tier)
}
pub fn run_c16(tier: Tier) -> i32 {
    run_kind(Kind::C16, tier)
}

pub fn replay(id: &str, file: &str) -> i32 {
    let kind = match id {
        "C07" => Kind::C07,
        "C08" => Kind::C08,
        "C15" => Kind::C15,
        "C16" => Kind::C16,
        _ => {
            eprintln!("unknown property {}", id);
            return 2;
        }
    };
    let mut run = Run::new(id, Tier::Quick, "exploration");
    let f = Path::new(file);
    let r = run
        .replay_file("mock-reader", &Mock { kind, max_sets: 8, schedules: 1 }, f, true)
        .or_else(|| run.replay_file("dfs-tiny-configurations", &Mock { kind, max_sets: 8, schedules: 1 }, f, true))
        .or_else(|| run.replay_file("real-readers", &Real { kind, schedules: 1 }, f, true));
    match r {
        Some(true) => 0,
        Some(false) => 1,
        None => {
            eprintln!("replay file {} does not belong to a sub-check of {}", file, id);
            2
        }
    }
}
