//! Oracles over the observation of one execution (history invariants).

use crate::engine::CheckResult;
use crate::par::{Consumer, Evt, MockE, Obs, ParCfg};
use crate::{ensure, fail};

/// The result the call must return, given which init closure was observed to fail.
/// dataset_init is called at most queue_len + 1 times; when the reader finishes early the filling loop
/// stops and a failure scripted for a later call never happens - so the expectation is derived from the
/// observed failure, not from the script.
pub fn expected_result(cfg: &ParCfg, o: &Obs) -> Option<Result<(), MockE>> {
    let di = o.events.iter().find_map(|e| if let Evt::InitFailed { call } = e { Some(*call) } else { None });
    match (di, cfg.reader_init_fails) {
        (Some(_), true) => None, // either error, depending on the schedule
        (Some(j), false) => Some(Err(MockE::DatasetInit(j))),
        (None, true) => Some(Err(MockE::ReaderInit)),
        (None, false) => Some(Ok(())),
    }
}

pub fn faultless(cfg: &ParCfg) -> bool {
    cfg.reader_err_at.is_none() && !cfg.reader_init_fails && cfg.dataset_init_fail_at.filter(|j| *j <= cfg.queue_len).is_none()
}

/// C08: the call returned with the expected kind of result and nothing ran afterwards.
pub fn termination(cfg: &ParCfg, o: &Obs) -> CheckResult {
    ensure!(o.returned && o.result.is_some(), "mock/did-not-return", "the call did not return");
    for e in &o.events {
        if let Evt::Late(what) = e {
            fail!(format!("mock/callback-after-return/{}", what), "{} ran after the parallel function had returned", what);
        }
    }
    match (expected_result(cfg, o), o.result.as_ref().unwrap()) {
        (Some(want), got) => ensure!(
            *got == want,
            format!("mock/wrong-result/{}", match want { Ok(()) => "expected-ok", Err(MockE::ReaderInit) => "reader-init-error-lost", Err(MockE::DatasetInit(_)) => "dataset-init-error-lost" }),
            "the call returned {:?}, expected {:?}",
            got,
            want
        ),
        (None, got) => ensure!(got.is_err(), "mock/wrong-result/init-errors-lost", "both init closures fail but the call returned Ok"),
    }
    Ok(())
}

/// C07: exactly-once delivery with the right output (draining consumer, no faults).
pub fn delivery(cfg: &ParCfg, o: &Obs) -> CheckResult {
    debug_assert!(faultless(cfg) && cfg.consumer == Consumer::Drain);
    let n = cfg.n_sets;
    let mut recv = vec![0usize; n];
    let mut work = vec![0usize; n];
    let mut fill = vec![0usize; n];
    let mut order = Vec::new();
    let mut end = 0;
    for e in &o.events {
        match e {
            Evt::Recv { idx, out_ok, tag } => {
                let i = match idx {
                    Some(i) if *i < n => *i,
                    other => fail!("mock/received-unfilled-set", "the consumer received a data set that was never filled (idx {:?}, tag {})", other, tag),
                };
                ensure!(end == 0, "mock/set-after-end-marker", "set {} arrived after the end marker", i);
                recv[i] += 1;
                order.push(i);
                ensure!(*out_ok, "mock/wrong-output-for-set", "set {} arrived with an output that is not the worker's result for this set", i);
            }
            Evt::Work { idx, .. } => {
                ensure!(*idx < n, "mock/worker-saw-unfilled-set", "the worker got a data set that was never filled");
                work[*idx] += 1;
            }
            Evt::Fill { idx, .. } => fill[*idx] += 1,
            Evt::RecvEnd => end += 1,
            Evt::RecvErr { idx } => fail!("mock/spurious-error", "the consumer received an error ({}), but the reader never failed", idx),
            Evt::RecvAfterEnd { none } => ensure!(*none, "mock/item-after-end-marker", "next() returned an item after the end marker"),
            _ => {}
        }
    }
    for i in 0..n {
        ensure!(recv[i] == 1, format!("mock/set-{}", if recv[i] == 0 { "lost" } else { "duplicated" }), "set {} reached the consumer {} times (sets: {}, received order {:?})", i, recv[i], n, order);
        ensure!(work[i] == 1, "mock/worker-count", "set {} was processed {} times", i, work[i]);
        ensure!(fill[i] == 1, "mock/fill-count", "set {} was filled {} times", i, fill[i]);
    }
    ensure!(end == 1, "mock/end-marker-missing", "a draining consumer must receive the end marker exactly once, got {}", end);
    if cfg.n_threads == 1 {
        ensure!(order.windows(2).all(|w| w[0] < w[1]), "mock/single-worker-order", "with one worker thread the sets arrived out of file order: {:?}", order);
    }
    Ok(())
}

/// C16: fixed number of recycled data sets; the reader is never more than queue_len ahead.
pub fn recycling(cfg: &ParCfg, o: &Obs) -> CheckResult {
    let mut created = Vec::new();
    let mut fills = 0usize;
    let mut received = 0usize;
    let mut worked = 0usize;
    let mut max_ahead = 0usize;
    for e in &o.events {
        match e {
            Evt::Init { tag } => created.push(*tag),
            Evt::Fill { tag, idx } => {
                ensure!(created.contains(tag), "mock/unknown-data-set", "fill_data got a data set (tag {}) that dataset_init never created", tag);
                fills += 1;
                // The consumer's "received" is logged after next() has returned, i.e. after next() has already recycled
                // the previous set, so the log may lag by one result - but only a result that a worker has finished
                // can have been received. Hence: fills <= queue_len + min(received + 1, worked).
                let lead_allowance = (received + 1).min(worked);
                ensure!(
                    fills <= cfg.queue_len + lead_allowance,
                    "mock/reader-too-far-ahead",
                    "fill {} (set {}) happened while the consumer had received {} result(s) and the workers had finished {}: the reader is more than queue_len = {} ahead of the consumer",
                    fills,
                    idx,
                    received,
                    worked,
                    cfg.queue_len
                );
                max_ahead = max_ahead.max(fills - received);
            }
            Evt::Work { tag, .. } => {
                ensure!(created.contains(tag), "mock/unknown-data-set", "the worker got a data set (tag {}) that dataset_init never created", tag);
                worked += 1;
            }
            Evt::Recv { tag, .. } => {
                ensure!(created.contains(tag), "mock/unknown-data-set", "the consumer got a data set (tag {}) that dataset_init never created", tag);
                received += 1;
            }
            Evt::RecvErr { .. } => received += 1,
            _ => {}
        }
    }
    ensure!(
        created.len() <= cfg.queue_len + 1,
        "mock/too-many-data-sets",
        "{} data sets were created, queue_len + 1 = {}",
        created.len(),
        cfg.queue_len + 1
    );
    // (no lower bound: when the reader reaches the end of the input while the main thread is still filling the queue,
    // the filling loop stops early and fewer than queue_len + 1 data sets are created)
    Ok(())
}

/// C15: reader error at set index e reaches the consumer exactly once, nothing after it.
pub fn reader_error(cfg: &ParCfg, o: &Obs) -> CheckResult {
    let e = match cfg.reader_err_at {
        Some(e) => e,
        None => return Ok(()),
    };
    let mut errs = 0;
    let mut recv = vec![0usize; cfg.n_sets + 1];
    let mut end = 0;
    let mut consumed = 0usize;
    for ev in &o.events {
        match ev {
            Evt::FillAfterErr => fail!("mock/read-after-error", "fill_data was called again after it had returned an error"),
            Evt::RecvErr { idx } => {
                ensure!(*idx == e, "mock/wrong-error", "received error {} but the reader failed at set {}", idx, e);
                errs += 1;
                consumed += 1;
                ensure!(end == 0, "mock/error-after-end-marker", "the error arrived after the end marker");
            }
            Evt::Recv { idx, out_ok, .. } => {
                let i = idx.unwrap_or(usize::MAX);
                ensure!(i < e, "mock/set-read-after-error-received", "the consumer received set {:?}, which is not in front of the failing set {}", idx, e);
                recv[i] += 1;
                consumed += 1;
                ensure!(*out_ok, "mock/wrong-output-for-set", "set {} arrived with a foreign output", i);
                ensure!(end == 0, "mock/set-after-end-marker", "set {} arrived after the end marker", i);
            }
            Evt::RecvEnd => end += 1,
            _ => {}
        }
    }
    ensure!(errs <= 1, "mock/error-duplicated", "the reader error was received {} times", errs);
    for (i, c) in recv.iter().enumerate() {
        ensure!(*c <= 1, "mock/set-duplicated", "set {} was received {} times", i, c);
    }
    let unfaulted_inits = !cfg.reader_init_fails && !o.events.iter().any(|e| matches!(e, Evt::InitFailed { .. }));
    if unfaulted_inits {
        match cfg.consumer {
            Consumer::Drain if !cfg.stop_at_error => {
                ensure!(errs == 1, "mock/error-lost", "a draining consumer did not receive the reader error (failing set {})", e);
                for i in 0..e.min(cfg.n_sets) {
                    ensure!(recv[i] == 1, "mock/set-lost-before-error", "a draining consumer did not receive set {} (in front of the failing set {})", i, e);
                }
                ensure!(end == 1, "mock/end-marker-missing", "a draining consumer did not receive the end marker after the error");
            }
            Consumer::Drain => {
                ensure!(errs == 1, "mock/error-lost", "a consumer draining up to the error did not receive it (failing set {})", e);
            }
            Consumer::StopAfter(k) => {
                // it asked k times: each answer is a set, the error, or the end marker
                let _ = (k, consumed);
            }
        }
        ensure!(o.result == Some(Ok(())), "mock/wrong-result/expected-ok", "a reader error is delivered through the iterator; the call itself returns Ok, got {:?}", o.result);
    }
    Ok(())
}
