//! The part of the schedule tier that depends on shuttle: yielding and running a body under a seeded
//! scheduler. (The real-thread fallback crate `blackbox/` provides the same two functions on std threads.)

use crate::par::Sched;

pub const TIER_NAME: &str = "shuttle";
/// divisor applied to the case counts of the checks (the real-thread fallback is ~50x slower per execution)
/// all tasks of one execution run on the same OS thread (thread-local counters see the whole execution)
pub const SINGLE_OS_THREAD: bool = true;
pub const WORK_DIVISOR: u64 = 1;

#[inline]
pub fn yield_now() {
    shuttle::thread::yield_now();
}

/// Runs `body` `iterations` times under the given seeded scheduler. Returns the number of executions, or
/// Err if shuttle panicked (deadlock, step bound, panic inside a task - including the oracle panics raised
/// by the callers).
pub fn run_under<F>(sched: Sched, seed: u64, iterations: usize, body: F) -> Result<usize, crate::engine::Failure>
where
    F: Fn() + Send + Sync + Clone + 'static,
{
    let r = run_inner(sched, seed, iterations, body.clone());
    if let Err(f) = &r {
        if f.msg.contains("did not exercise any concurrency") {
            // PCT refuses executions with (almost) no scheduling points (e.g. an init closure failing at once):
            // sample those with the random scheduler instead
            if let Sched::Pct(_) = sched {
                return run_inner(Sched::Random, seed, iterations, body);
            }
        }
    }
    r
}

fn run_inner<F>(sched: Sched, seed: u64, iterations: usize, body: F) -> Result<usize, crate::engine::Failure>
where
    F: Fn() + Send + Sync + 'static,
{
    let mut config = shuttle::Config::new();
    config.failure_persistence = shuttle::FailurePersistence::None;
    config.max_steps = shuttle::MaxSteps::FailAfter(2_000_000);
    config.silence_warnings = true;
    let iters = std::cell::Cell::new(0usize);
    let r = crate::engine::guarded(|| {
        let n = match sched {
            Sched::Random => shuttle::Runner::new(shuttle::scheduler::RandomScheduler::new_from_seed(seed, iterations), config).run(body),
            Sched::Pct(d) => shuttle::Runner::new(shuttle::scheduler::PctScheduler::new_from_seed(seed, d.max(1) as usize, iterations), config).run(body),
            Sched::RoundRobin => shuttle::Runner::new(shuttle::scheduler::RoundRobinScheduler::new(1), config).run(body),
            Sched::Dfs(max) => shuttle::Runner::new(shuttle::scheduler::DfsScheduler::new(Some(max as usize), false), config).run(body),
        };
        iters.set(n);
        Ok(())
    });
    match r {
        Ok(()) => Ok(iters.get()),
        Err(f) => {
            let sig = if f.msg.contains("deadlock!") {
                "deadlock".to_string()
            } else if f.msg.contains("exceeded max_steps") {
                "livelock-step-bound".to_string()
            } else if f.msg.contains("growth policy stalled") {
                "real/reader-livelock-policy-does-not-grow".to_string()
            } else {
                f.sig.clone()
            };
            Err(crate::engine::Failure::new(sig, f.msg))
        }
    }
}
