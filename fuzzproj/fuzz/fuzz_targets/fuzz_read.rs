#![no_main]
//! libFuzzer target: bytes -> structured case -> the same oracle as the proptest check.
use libfuzzer_sys::fuzz_target;

fuzz_target!(|data: &[u8]| {
    if let Err(f) = seqio_verif::fuzzdec::run_target("fuzz_read", data) {
        panic!("ORACLE VIOLATION [{}]: {}", f.sig, f.msg);
    }
});
