#!/bin/bash
# Coverage-guided libFuzzer campaign (thorough tier) with the same oracle as the proptest check.
#   run_fuzz.sh <ID> [runs-per-process]      ID in C01 C02 C03 C06
# Fixed work: P processes x RUNS runs, -seed derived from VERIF_SEED, fresh corpus copy of corpus/<target>.
# Exit 0 = no oracle violation; exit 1 + VIOLATION line = an artifact that the oracle rejects; exit 2 = infrastructure.
set -u
cd "$(dirname "$0")"
export SEQIO_VERIF_DIR="${SEQIO_VERIF_DIR:-$(cd .. && pwd)}"
ID=${1:?id}
RUNS=${2:-${FUZZ_RUNS:-400000}}
P=${FUZZ_PROCS:-8}
SEED=${VERIF_SEED:-1}
export CARGO_NET_OFFLINE=true
unset SEQIO_FUZZ_FORMAT
case "$ID" in
  C01) TARGET=fuzz_read; export SEQIO_FUZZ_FORMAT=fasta ;;
  C02) TARGET=fuzz_read; export SEQIO_FUZZ_FORMAT=fastq ;;
  C03) TARGET=fuzz_config_diff ;;
  C06) TARGET=fuzz_total ;;
  *) echo "no fuzz target for $ID"; exit 0 ;;
esac
LOG=$(mktemp -d /tmp/seqio_fuzz.XXXXXX)
if ! cargo +nightly fuzz build "$TARGET" >"$LOG/build.log" 2>&1; then
  echo "INCONCLUSIVE: cargo fuzz build failed"; tail -20 "$LOG/build.log"; rm -rf "$LOG"; exit 2
fi
BIN=fuzz/target/x86_64-unknown-linux-gnu/release/$TARGET
WORK=fuzz/corpus-work/$ID
rm -rf "$WORK"; mkdir -p "$WORK"
T0=$(date +%s)
for i in $(seq 1 $P); do
  mkdir -p "$WORK/c$i" "$WORK/a$i"
  cp corpus/$TARGET/* "$WORK/c$i/" 2>/dev/null
  S=$(( (SEED * 1000003 + i * 7919) % 2147483647 + 1 ))
  "$BIN" "$WORK/c$i" -artifact_prefix="$WORK/a$i/" -runs=$RUNS -seed=$S -len_control=0 -max_len=2304 -timeout=120 -rss_limit_mb=4096 -print_final_stats=1 >"$LOG/p$i.log" 2>&1 &
done
wait
T1=$(date +%s)
rc=0
EXEC=0
for i in $(seq 1 $P); do
  n=$(grep -a "stat::number_of_executed_units" "$LOG/p$i.log" | awk '{print $2}' | tail -1); EXEC=$((EXEC + ${n:-0}))
done
COV=$(grep -ah "cov: " "$LOG"/p*.log | sed -n 's/.*cov: \([0-9]*\).*/\1/p' | sort -n | tail -1)
N_ART=0
for art in "$WORK"/a*/crash-* "$WORK"/a*/timeout-* "$WORK"/a*/oom-*; do
  [ -e "$art" ] || continue
  N_ART=$((N_ART + 1))
  case "$art" in
    */timeout-*|*/oom-*) mkdir -p "$SEQIO_VERIF_DIR/failures"; cp "$art" "$SEQIO_VERIF_DIR/failures/$ID-$TARGET-$(basename "$art")"
       echo "INCONCLUSIVE: libFuzzer reported $(basename "$art") (not a violation); input kept as $SEQIO_VERIF_DIR/failures/$ID-$TARGET-$(basename "$art")"; [ $rc -eq 0 ] && rc=2; continue ;;
  esac
  out=$(../harness/target/release/seqio_verif decode-artifact "$TARGET" "$art" 2>&1); drc=$?
  if [ $drc -eq 1 ]; then
    path=$(echo "$out" | awk '{print $3}')
    echo "VIOLATION property=$ID replay=$path"
    echo "  found by libFuzzer target $TARGET; $(grep -o '"message": "[^"]*' "$path" | head -c 600)"
    rc=1
  elif [ $drc -eq 0 ]; then
    echo "note: libFuzzer artifact $art does not reproduce through the oracle (ignored)"
  else
    echo "INCONCLUSIVE: could not decode $art: $out"; [ $rc -eq 0 ] && rc=2
  fi
done
echo "$ID libfuzzer: target $TARGET, $P processes x $RUNS runs, $EXEC executions, max cov $COV, $N_ART artifact(s), $((T1 - T0))s"
# record the campaign in the evidence file written by the proptest run
python3 - "$ID" "$TARGET" "$P" "$RUNS" "$EXEC" "${COV:-0}" "$N_ART" "$((T1 - T0))" "$SEED" <<'PY'
import json, sys
id_, target, p, runs, execs, cov, nart, secs, seed = sys.argv[1:]
import os
path = os.path.join(os.environ.get("SEQIO_VERIF_DIR", "/verif"), "evidence", "%s.json" % id_)
try:
    e = json.load(open(path))
    e["coverage"]["libfuzzer"] = {"target": target, "processes": int(p), "runs_per_process": int(runs), "executions": int(execs),
        "max_edge_coverage": int(cov or 0), "artifacts": int(nart), "wall_s": int(secs), "seed": int(seed),
        "options": "-len_control=0 -max_len=2304, seed corpus fuzzproj/corpus/%s, oracle inside the target" % target}
    e["coverage"]["evaluations"] = int(e["coverage"]["evaluations"]) + int(execs)
    json.dump(e, open(path, "w"), indent=2)
except Exception as ex:
    print("could not update evidence:", ex)
PY
rm -rf "$LOG" "$WORK"
exit $rc
