//! Small helpers: a byte-string type that serialises to a readable escaped string,
//! a deterministic hasher, monotone index mapping.

use serde::de::{self, Deserialize, Deserializer, Visitor};
use serde::ser::{Serialize, Serializer};
use std::fmt;
use std::hash::{Hash, Hasher};

#[derive(Clone, PartialEq, Eq, Hash, PartialOrd, Ord, Default)]
pub struct B(pub Vec<u8>);

impl B {
    pub fn new(b: &[u8]) -> B {
        B(b.to_vec())
    }
}

impl std::ops::Deref for B {
    type Target = [u8];
    fn deref(&self) -> &[u8] {
        &self.0
    }
}

impl From<Vec<u8>> for B {
    fn from(v: Vec<u8>) -> B {
        B(v)
    }
}
impl From<&[u8]> for B {
    fn from(v: &[u8]) -> B {
        B(v.to_vec())
    }
}

pub fn esc(b: &[u8]) -> String {
    let mut s = String::with_capacity(b.len() + 8);
    for &c in b {
        match c {
            b'\n' => s.push_str("\\n"),
            b'\r' => s.push_str("\\r"),
            b'\t' => s.push_str("\\t"),
            b'\\' => s.push_str("\\\\"),
            0x20..=0x7e => s.push(c as char),
            _ => s.push_str(&format!("\\x{:02x}", c)),
        }
    }
    s
}

pub fn unesc(s: &str) -> Result<Vec<u8>, String> {
    let b = s.as_bytes();
    let mut out = Vec::with_capacity(b.len());
    let mut i = 0;
    while i < b.len() {
        if b[i] == b'\\' {
            i += 1;
            if i >= b.len() {
                return Err("dangling backslash".into());
            }
            match b[i] {
                b'n' => out.push(b'\n'),
                b'r' => out.push(b'\r'),
                b't' => out.push(b'\t'),
                b'\\' => out.push(b'\\'),
                b'x' => {
                    if i + 2 >= b.len() {
                        return Err("short \\x escape".into());
                    }
                    let h = std::str::from_utf8(&b[i + 1..i + 3]).map_err(|e| e.to_string())?;
                    out.push(u8::from_str_radix(h, 16).map_err(|e| e.to_string())?);
                    i += 2;
                }
                c => return Err(format!("bad escape \\{}", c as char)),
            }
            i += 1;
        } else {
            out.push(b[i]);
            i += 1;
        }
    }
    Ok(out)
}

impl fmt::Debug for B {
    fn fmt(&self, f: &mut fmt::Formatter) -> fmt::Result {
        write!(f, "b\"{}\"", esc(&self.0))
    }
}

impl Serialize for B {
    fn serialize<S: Serializer>(&self, s: S) -> Result<S::Ok, S::Error> {
        s.serialize_str(&esc(&self.0))
    }
}

struct BVisitor;
impl<'de> Visitor<'de> for BVisitor {
    type Value = B;
    fn expecting(&self, f: &mut fmt::Formatter) -> fmt::Result {
        f.write_str("an escaped byte string")
    }
    fn visit_str<E: de::Error>(self, v: &str) -> Result<B, E> {
        unesc(v).map(B).map_err(de::Error::custom)
    }
}
impl<'de> Deserialize<'de> for B {
    fn deserialize<D: Deserializer<'de>>(d: D) -> Result<B, D::Error> {
        d.deserialize_str(BVisitor)
    }
}

/// Deterministic 64-bit hash (SipHash with fixed zero keys).
pub fn h64<T: Hash + ?Sized>(t: &T) -> u64 {
    #[allow(deprecated)]
    let mut h = std::hash::SipHasher::new();
    t.hash(&mut h);
    h.finish()
}

/// Maps a generated 16-bit index monotonically onto 0..n (n >= 1), so that shrinking the index
/// towards 0 shrinks the result towards 0.
pub fn idx(i: u16, n: usize) -> usize {
    debug_assert!(n >= 1);
    ((i as usize) * n) >> 16
}

pub fn trim_cr(l: &[u8]) -> &[u8] {
    if l.last() == Some(&b'\r') {
        &l[..l.len() - 1]
    } else {
        l
    }
}

pub fn lossy(b: &[u8]) -> String {
    String::from_utf8_lossy(b).into_owned()
}

/// A temporary file or directory of a check, removed when the value is dropped (also on an early return or a panic
/// caught by the engine).
pub struct TempPath(pub std::path::PathBuf);

impl Drop for TempPath {
    fn drop(&mut self) {
        if self.0.is_dir() {
            let _ = std::fs::remove_dir_all(&self.0);
        } else {
            let _ = std::fs::remove_file(&self.0);
        }
    }
}
