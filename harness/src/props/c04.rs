//! C04 — all ways of reading one reader deliver the same records exactly once;
//! C05 — positions are true file coordinates and seeking restores the stream.
//! Both run generated call histories against the strict cursor model. (DESIGN.md §4 C04, C05)

use crate::engine::{boxed, CheckResult, Ctx, Prop, Run, Tier};
use crate::gen;
use crate::interp::{check_strict, livelock_check, run_ops_fmt, Op, RunSpec};
use crate::light::fmt_name;
use crate::model::{Format, Model};
use crate::policy::PolKind;
use crate::source::Script;
use crate::util::B;
use proptest::collection::vec;
use proptest::prelude::*;
use serde_derive::{Deserialize, Serialize};

#[derive(Clone, Debug, Serialize, Deserialize, Hash)]
pub struct Case {
    pub format: Format,
    pub input: B,
    pub cap: usize,
    pub policy: PolKind,
    pub script: Script,
    pub ops: Vec<Op>,
}

pub fn op(seek_weight: u32) -> BoxedStrategy<Op> {
    prop_oneof![
        8 => Just(Op::Next),
        3 => Just(Op::Owned),
        7 => (0u8..3).prop_map(Op::ReadSet),
        7 => (0u8..3, prop_oneof![8 => 1u8..=3, 4 => 4u8..=7, 2 => 8u8..=20, 1 => 250u8..=255]).prop_map(|(s, n)| Op::ReadExact(s, n)),
        seek_weight => any::<u16>().prop_map(Op::Seek),
        seek_weight / 3 + 1 => any::<u16>().prop_map(Op::SeekSeen),
        1 => Just(Op::IntoRecords),
        1 => (0u8..3).prop_map(Op::ShrinkSet),
        1 => (0u8..3, 0u8..3).prop_map(|(a, b)| Op::CloneSet(a, b)),
        1 => (0u8..3, 0u8..3).prop_map(|(a, b)| Op::CloneFromSet(a, b)),
        1 => gen::policy_permissive().prop_map(Op::SetPolicy),
    ]
    .boxed()
}

/// documents for history checks: mostly well-formed, FASTQ also with one defect
pub fn history_input(f: Format) -> BoxedStrategy<B> {
    match f {
        Format::Fasta => prop_oneof![60 => gen::fasta_doc_with(8, 12), 10 => gen::fasta_doc_with(30, 40), 10 => gen::byte_soup(f), 1 => gen::big_input(f)].boxed(),
        Format::Fastq => prop_oneof![40 => gen::fastq_valid_doc(8), 30 => gen::fastq_doc_with(8, false), 10 => gen::fastq_valid_doc(30), 10 => gen::byte_soup(f), 1 => gen::big_input(f)].boxed(),
    }
}

pub struct Histories {
    pub seek_weight: u32,
    pub positions: bool,
}

impl Prop for Histories {
    type Case = Case;
    fn input_bytes<'a>(&self, c: &'a mut Self::Case) -> Option<&'a mut Vec<u8>> {
        Some(&mut c.input.0)
    }
    fn strategy(&self, _tier: Tier) -> BoxedStrategy<Case> {
        let sw = self.seek_weight;
        let per_format = move |f: Format| {
            (gen::input_and_cap(f, history_input(f)), gen::policy_permissive(), gen::script(), vec(op(sw), 0..24))
                .prop_map(move |((input, cap), policy, script, ops)| Case { format: f, input, cap, policy, script, ops })
        };
        // histories inside a buffer of more than 64 KiB over a document of a few hundred kB: exact-count reads of
        // 1..249 records walk through the buffer and across its end (batches that start tens of kB into the buffer)
        let large = move |f: Format| {
            let big_op = prop_oneof![
                3 => Just(Op::Next),
                3 => (0u8..3).prop_map(Op::ReadSet),
                6 => (0u8..3, prop_oneof![1 => 1u8..=20, 3 => 100u8..=249]).prop_map(|(s, n)| Op::ReadExact(s, n)),
                1 => any::<u16>().prop_map(Op::Seek),
                1 => any::<u16>().prop_map(Op::SeekSeen),
                1 => (0u8..3).prop_map(Op::ShrinkSet),
                1 => (0u8..3, 0u8..3).prop_map(|(a, b)| Op::CloneFromSet(a, b)),
            ];
            (gen::big_input(f), 2usize..5, prop_oneof![2 => 65_537usize..70_000, 1 => Just(100_000usize), 1 => Just(1usize << 17)], gen::policy_permissive(), vec(big_op, 4..24)).prop_map(move |(doc, rep, cap, policy, ops)| {
                let input = if doc.last() == Some(&b'\n') { B(doc.0.repeat(rep)) } else { doc };
                Case { format: f, input, cap, policy, script: Default::default(), ops }
            })
        };
        boxed(prop_oneof![60 => per_format(Format::Fasta), 60 => per_format(Format::Fastq), 1 => large(Format::Fasta), 1 => large(Format::Fastq)])
    }

    fn check(&self, c: &Case, ctx: &mut Ctx) -> CheckResult {
        let m = Model::build(c.format, &c.input);
        if c.cap > 65536 {
            ctx.class("history inside a buffer larger than 64 KiB");
        }
        let spec = RunSpec { input: &c.input, cap: c.cap, policy: c.policy, script: &c.script, ops: &c.ops, model: &m };
        let t = run_ops_fmt(c.format, &spec);
        livelock_check(fmt_name(c.format), &t)?;
        let st = check_strict(&m, &t, self.positions)?;
        // classification
        if st.kinds_used >= 2 {
            ctx.class("history mixes >= 2 read kinds");
        }
        if st.switches_mid_buffer > 0 {
            ctx.class("switch of read kind right after a set read (reader holds an incomplete record)");
        }
        if st.exact_crossing_eof > 0 {
            ctx.class("exact-count read asks for more than remain");
        }
        if st.refill_smaller > 0 {
            ctx.class("slot refilled with fewer records than it held");
        }
        if st.error_after_batch {
            ctx.class("format error reported by a set read after earlier records");
        }
        if st.reached_unspecified {
            ctx.class("mixed-terminator-excluded (checking stops there)");
        }
        if st.seeks_inbuf > 0 {
            ctx.class("seek served from the buffer");
        }
        if st.seeks_real > 0 {
            ctx.class("seek that really seeks the source");
        }
        if st.reads_after_seek > 0 {
            ctx.class("reads after a seek");
        }
        if st.terminal_reported {
            ctx.class("history reaches the terminal (end or error)");
        }
        ctx.class_n("records compared", st.records_checked as u64);
        ctx.class_n("positions compared", st.positions_checked as u64);
        let nontrivial = if self.positions {
            st.seeks >= 1 && st.reads_after_seek >= 1 && st.records_checked >= 1
        } else {
            st.kinds_used >= 2 && st.records_checked >= 2 && (st.switches_mid_buffer > 0 || st.exact_crossing_eof > 0 || st.refill_smaller > 0)
        };
        if nontrivial {
            ctx.nontrivial(c, c);
        }
        Ok(())
    }
}

pub const RULE_C04: &str = "cases = (format, document (mostly well-formed; FASTQ also with one defect at a generated record), capacity absolute or aimed at record boundaries, permissive policy, chunk/interrupt script, history of 0..24 operations (1 case in 60: a document of several hundred kB read with a buffer of 64 KiB..128 KiB and exact-count reads of up to 249 records) over {next, records() step, read_record_set(slot 0..2), read_record_set_exact(slot, n in 1..20, rarely one of u32::MAX, 2^40, isize::MAX/40+1, isize::MAX, usize::MAX/8, usize::MAX), seek to a record, seek to a position reported earlier, into_records()}). Oracle: strict cursor model (exactly once, in order, content equal to the reference record, k >= 1 for plain sets, k = min(n, remaining) for exact sets, end only with nothing left, untouched slots unchanged, refilled slot = new batch only, error only after all preceding records). Exhaustive sub-check: every operation sequence of length <= 4 (thorough: 5) over a 9-operation alphabet (incl. read_record_set_exact(usize::MAX)) x 6 fixed small documents x 7 capacities. Non-trivial = the history uses >= 2 read kinds, delivers >= 2 records and (switches kind right after a set read, or an exact read crosses the end, or a slot is refilled with fewer records than it held). Distinct = hash(case).";

pub const RULE_C05: &str = "cases as for C04 but seek-heavy (about 40 % seeks), long leading blank regions, capacities smaller and larger than the distance to the target. Oracle: after next() the reported position equals the model's (line, byte) of that record; after a set read a reported position equals the coordinates of the next unread record (or of the invalid FASTQ group); after a seek the reads follow the cursor model from the target (seeking to an invalid FASTQ record reproduces its error). Exhaustive sub-check as for C04, with positions compared. Non-trivial = >= 1 seek followed by >= 1 read that returned a record. Distinct = hash(case).";

/// Complete small scope: every history of length <= L over a 9-operation alphabet x fixed small documents x
/// capacities, checked by the same cursor model.
fn exhaustive_histories(run: &mut Run, positions: bool, max_len: u32) {
    let docs: Vec<(Format, &'static [u8])> = vec![
        (Format::Fasta, b">a\nAC\n>b\nG\nT\n>c\n"),
        (Format::Fasta, b"\n>a x\r\nAC\r\n\r\n>b"),
        (Format::Fasta, b"\n\n\n\n>a\nACGTACGT\n>b\nA"),
        (Format::Fastq, b"@a\nAC\n+\nII\n@b\nG\n+\nI\n@c\n\n+\n\n"),
        (Format::Fastq, b"@a\r\nAC\r\n+\r\nII\r\n@b\r\nG\r\n+\r\nI"),
        (Format::Fastq, b"@a\nAC\n+\nII\n@b\nG\n-\nI\n@c\nA\n+\nI\n"),
    ];
    let alphabet: Vec<Op> = vec![Op::Next, Op::Owned, Op::ReadSet(0), Op::ReadSet(1), Op::ReadExact(0, 1), Op::ReadExact(1, 2), Op::ReadExact(2, 255), Op::Seek(0), Op::Seek(u16::MAX)];
    let caps: Vec<usize> = vec![3, 4, 5, 7, 11, 16, 64];
    let k = alphabet.len() as u64;
    let mut total = 0u64;
    let mut starts = Vec::new();
    for l in 0..=max_len {
        starts.push(total);
        total += k.pow(l);
    }
    let space = format!(
        "all operation sequences of length 0..={} over {{next, records() step, read_record_set(slot 0/1), read_record_set_exact(slot 0, 1), read_record_set_exact(slot 1, 2), seek(first record), seek(last target)}} x {} fixed small documents (LF/CRLF, blank lines, missing final terminator, one with an invalid separator) x capacities {:?}",
        max_len,
        docs.len(),
        caps
    );
    let sub = if positions { "exhaustive-short-histories-positions" } else { "exhaustive-short-histories" };
    run.exhaustive_par(sub, &space, total, move |i, ctx| {
        let mut l = 0usize;
        while l + 1 < starts.len() && starts[l + 1] <= i {
            l += 1;
        }
        let mut x = i - starts[l];
        let mut ops = Vec::with_capacity(l);
        for _ in 0..l {
            ops.push(alphabet[(x % k) as usize].clone());
            x /= k;
        }
        for (format, doc) in &docs {
            let m = Model::build(*format, doc);
            for &cap in &caps {
                ctx.eval();
                let c = Case { format: *format, input: B(doc.to_vec()), cap, policy: PolKind::Std, script: Script::default(), ops: ops.clone() };
                let verdict = crate::engine::guarded(|| {
                    let spec = RunSpec { input: &c.input, cap: c.cap, policy: c.policy, script: &c.script, ops: &c.ops, model: &m };
                    let t = run_ops_fmt(c.format, &spec);
                    livelock_check(fmt_name(c.format), &t)?;
                    check_strict(&m, &t, positions).map(|_| ())
                });
                if let Err(f) = verdict {
                    return Err((serde_json::to_value(&c).unwrap(), f));
                }
                if l >= 2 {
                    ctx.nontrivial(&(format, doc, cap, &ops), &serde_json::json!({"format": format, "input": crate::util::esc(doc), "cap": cap, "ops": format!("{:?}", ops)}));
                }
            }
        }
        Ok(())
    });
}

pub fn run_c04(tier: Tier) -> i32 {
    let mut run = Run::new("C04", tier, "exploration");
    let p = Histories { seek_weight: 2, positions: false };
    run.replays("history-cursor-model", &p);
    run.generated("history-cursor-model", &p, tier.pick(200_000, 3_000_000));
    exhaustive_histories(&mut run, false, if tier == Tier::Quick { 4 } else { 5 });
    run.finish(RULE_C04, &["reference model M_fa/M_fq", "no faults, permissive policies (faults: C14, refusals: C09, totality: C06)"])
}

pub fn run_c05(tier: Tier) -> i32 {
    let mut run = Run::new("C05", tier, "exploration");
    let p = Histories { seek_weight: 24, positions: true };
    run.replays("seek-position-model", &p);
    run.generated("seek-position-model", &p, tier.pick(200_000, 3_000_000));
    exhaustive_histories(&mut run, true, if tier == Tier::Quick { 4 } else { 5 });
    let l = super::large::LargeCoords { errors: false };
    run.replays("large-coordinates", &l);
    run.generated("large-coordinates", &l, tier.pick(300, 6_000));
    super::large::run_beyond(&mut run, false);
    run.finish(&format!("{} {}", RULE_C05, super::large::RULE_LARGE), &["reference model M_fa/M_fq gives the true coordinates", "seek targets are record starts (and the invalid FASTQ group) only"])
}

pub fn replay_c04(run: &mut Run, file: &std::path::Path) -> Option<bool> {
    run.replay_file("history-cursor-model", &Histories { seek_weight: 2, positions: false }, file, true)
        .or_else(|| run.replay_file("exhaustive-short-histories", &Histories { seek_weight: 2, positions: false }, file, true))
}
pub fn replay_c05(run: &mut Run, file: &std::path::Path) -> Option<bool> {
    run.replay_file("seek-position-model", &Histories { seek_weight: 24, positions: true }, file, true)
        .or_else(|| run.replay_file("exhaustive-short-histories-positions", &Histories { seek_weight: 24, positions: true }, file, true))
        .or_else(|| run.replay_file("large-coordinates", &super::large::LargeCoords { errors: false }, file, true))
        .or_else(|| run.replay_file("beyond-4-gib", &super::large::Beyond4G { errors: false, variants: &[0] }, file, true))
}
