//! C04 — all ways of reading one reader deliver the same records exactly once;
//! C05 — positions are true file coordinates and seeking restores the stream.
//! Both run generated call histories against the strict cursor model. (DESIGN.md §4 C04, C05)

use crate::engine::{boxed, CheckResult, Ctx, Prop, Run, Tier};
use crate::gen;
use crate::interp::{check_strict, livelock_check, run_ops_fmt, Op, RunSpec};
use crate::light::fmt_name;
use crate::model::{Format, Model};
use crate::policy::PolKind;
use crate::source::Script;
use crate::util::B;
use crate::{ensure, fail};
use proptest::collection::vec;
use proptest::prelude::*;
use serde_derive::{Deserialize, Serialize};

#[derive(Clone, Debug, Serialize, Deserialize, Hash)]
pub struct Case {
    pub format: Format,
    pub input: B,
    pub cap: usize,
    pub policy: PolKind,
    pub script: Script,
    pub ops: Vec<Op>,
}

pub fn op(seek_weight: u32) -> BoxedStrategy<Op> {
    prop_oneof![
        8 => Just(Op::Next),
        3 => Just(Op::Owned),
        7 => (0u8..3).prop_map(Op::ReadSet),
        7 => (0u8..3, prop_oneof![8 => 1u8..=3, 4 => 4u8..=7, 2 => 8u8..=20, 1 => 250u8..=255]).prop_map(|(s, n)| Op::ReadExact(s, n)),
        seek_weight => any::<u16>().prop_map(Op::Seek),
        seek_weight / 3 + 1 => any::<u16>().prop_map(Op::SeekSeen),
        1 => Just(Op::IntoRecords),
        1 => (0u8..3).prop_map(Op::ShrinkSet),
        1 => (0u8..3, 0u8..3).prop_map(|(a, b)| Op::CloneSet(a, b)),
        1 => (0u8..3, 0u8..3).prop_map(|(a, b)| Op::CloneFromSet(a, b)),
        1 => gen::policy_permissive().prop_map(Op::SetPolicy),
    ]
    .boxed()
}

/// documents for history checks: mostly well-formed, FASTQ also with one defect
pub fn history_input(f: Format) -> BoxedStrategy<B> {
    match f {
        Format::Fasta => prop_oneof![60 => gen::fasta_doc_with(8, 12), 10 => gen::fasta_doc_with(30, 40), 10 => gen::byte_soup(f), 1 => gen::big_input(f)].boxed(),
        Format::Fastq => prop_oneof![40 => gen::fastq_valid_doc(8), 30 => gen::fastq_doc_with(8, false), 10 => gen::fastq_valid_doc(30), 10 => gen::byte_soup(f), 1 => gen::big_input(f)].boxed(),
    }
}

pub struct Histories {
    pub seek_weight: u32,
    pub positions: bool,
}

impl Prop for Histories {
    type Case = Case;
    fn input_bytes<'a>(&self, c: &'a mut Self::Case) -> Option<&'a mut Vec<u8>> {
        Some(&mut c.input.0)
    }
    fn strategy(&self, _tier: Tier) -> BoxedStrategy<Case> {
        let sw = self.seek_weight;
        let per_format = move |f: Format| {
            (gen::input_and_cap(f, history_input(f)), gen::policy_permissive(), gen::script(), vec(op(sw), 0..24))
                .prop_map(move |((input, cap), policy, script, ops)| Case { format: f, input, cap, policy, script, ops })
        };
        // histories inside a buffer of more than 64 KiB over a document of a few hundred kB: exact-count reads of
        // 1..249 records walk through the buffer and across its end (batches that start tens of kB into the buffer)
        let large = move |f: Format| {
            let big_op = prop_oneof![
                3 => Just(Op::Next),
                3 => (0u8..3).prop_map(Op::ReadSet),
                6 => (0u8..3, prop_oneof![1 => 1u8..=20, 3 => 100u8..=249]).prop_map(|(s, n)| Op::ReadExact(s, n)),
                1 => any::<u16>().prop_map(Op::Seek),
                1 => any::<u16>().prop_map(Op::SeekSeen),
                1 => (0u8..3).prop_map(Op::ShrinkSet),
                1 => (0u8..3, 0u8..3).prop_map(|(a, b)| Op::CloneFromSet(a, b)),
            ];
            (gen::big_input(f), 2usize..5, prop_oneof![2 => 65_537usize..70_000, 1 => Just(100_000usize), 1 => Just(1usize << 17)], gen::policy_permissive(), vec(big_op, 4..24)).prop_map(move |(doc, rep, cap, policy, ops)| {
                let input = if doc.last() == Some(&b'\n') { B(doc.0.repeat(rep)) } else { doc };
                Case { format: f, input, cap, policy, script: Default::default(), ops }
            })
        };
        boxed(prop_oneof![60 => per_format(Format::Fasta), 60 => per_format(Format::Fastq), 1 => large(Format::Fasta), 1 => large(Format::Fastq)])
    }

    fn check(&self, c: &Case, ctx: &mut Ctx) -> CheckResult {
        let m = Model::build(c.format, &c.input);
        if c.cap > 65536 {
            ctx.class("history inside a buffer larger than 64 KiB");
        }
        let spec = RunSpec { input: &c.input, cap: c.cap, policy: c.policy, script: &c.script, ops: &c.ops, model: &m };
        let t = run_ops_fmt(c.format, &spec);
        livelock_check(fmt_name(c.format), &t)?;
        let st = check_strict(&m, &t, self.positions)?;
        // classification
        if st.kinds_used >= 2 {
            ctx.class("history mixes >= 2 read kinds");
        }
        if st.switches_mid_buffer > 0 {
            ctx.class("switch of read kind right after a set read (reader holds an incomplete record)");
        }
        if st.exact_crossing_eof > 0 {
            ctx.class("exact-count read asks for more than remain");
        }
        if st.refill_smaller > 0 {
            ctx.class("slot refilled with fewer records than it held");
        }
        if st.error_after_batch {
            ctx.class("format error reported by a set read after earlier records");
        }
        if st.reached_unspecified {
            ctx.class("mixed-terminator-excluded (checking stops there)");
        }
        if st.seeks_inbuf > 0 {
            ctx.class("seek served from the buffer");
        }
        if st.seeks_real > 0 {
            ctx.class("seek that really seeks the source");
        }
        if st.reads_after_seek > 0 {
            ctx.class("reads after a seek");
        }
        if st.terminal_reported {
            ctx.class("history reaches the terminal (end or error)");
        }
        ctx.class_n("records compared", st.records_checked as u64);
        ctx.class_n("positions compared", st.positions_checked as u64);
        let nontrivial = if self.positions {
            st.seeks >= 1 && st.reads_after_seek >= 1 && st.records_checked >= 1
        } else {
            st.kinds_used >= 2 && st.records_checked >= 2 && (st.switches_mid_buffer > 0 || st.exact_crossing_eof > 0 || st.refill_smaller > 0)
        };
        if nontrivial {
            ctx.nontrivial(c, c);
        }
        Ok(())
    }
}

/// C05, clause "from any reader state": the reader has stopped with `InvalidStart` (blank lines, then a line that does
/// not start with '>' - e.g. a `;` comment preamble, which the module documentation names as unsupported) and the
/// caller, who knows the records' coordinates from an index, seeks to them. Sequential reading "from there" is the
/// reference model of the body, shifted by the preamble.
#[derive(Clone, Debug, Serialize, Deserialize, Hash)]
pub struct PreCase {
    /// blank lines in front (true = CRLF)
    pub blanks: Vec<bool>,
    /// preamble lines: none of them starts with '>' and the first one is not empty
    pub junk: Vec<(B, bool)>,
    /// well-formed FASTA that starts with '>' (or is empty)
    pub body: B,
    pub cap: usize,
    /// false: the failing first read is next(), true: read_record_set()
    pub first_set: bool,
    /// (target record, number of reads after the seek)
    pub seeks: Vec<(u16, u8)>,
}

pub struct Preamble;

impl Prop for Preamble {
    type Case = PreCase;
    fn strategy(&self, _tier: Tier) -> BoxedStrategy<PreCase> {
        let junk_line = |first: bool| {
            let b0 = prop_oneof![4 => Just(b';'), 2 => Just(b'#'), 2 => gen::seq_byte(), 1 => Just(b'@'), 1 => Just(b' ')].prop_filter("not '>' / line end", |b| *b != b'>' && *b != b'\n' && *b != b'\r');
            let rest = vec(prop_oneof![6 => gen::seq_byte(), 1 => Just(b'>'), 1 => Just(b' ')].prop_filter("no line end", |b| *b != b'\n' && *b != b'\r'), 0..12);
            (b0, rest, any::<bool>(), any::<bool>()).prop_map(move |(b0, rest, crlf, empty)| {
                if empty && !first {
                    (B(vec![]), crlf)
                } else {
                    let mut l = vec![b0];
                    l.extend(rest);
                    (B(l), crlf)
                }
            })
        };
        let blanks = prop_oneof![2 => Just(vec![]), 6 => vec(any::<bool>(), 1..5), 1 => vec(any::<bool>(), 5..40)];
        let junk = (junk_line(true), vec(junk_line(false), 0..3)).prop_map(|(a, mut v)| {
            v.insert(0, a);
            v
        });
        let body = prop_oneof![8 => gen::fasta_doc_with(8, 0), 1 => gen::fasta_doc_with(30, 0)];
        let cap = prop_oneof![3 => 3usize..16, 4 => 16usize..200, 2 => 200usize..2000, 1 => Just(65536usize)];
        boxed((blanks, junk, body, cap, any::<bool>(), vec((any::<u16>(), 0u8..6), 1..8)).prop_map(|(blanks, junk, body, cap, first_set, seeks)| PreCase { blanks, junk, body, cap, first_set, seeks }))
    }

    fn check(&self, c: &PreCase, ctx: &mut Ctx) -> CheckResult {
        use seq_io::fasta::{Error, Position, Reader, RecordSet};
        let mut doc = Vec::new();
        for &crlf in &c.blanks {
            doc.extend_from_slice(if crlf { b"\r\n" } else { b"\n" });
        }
        let blank_bytes = doc.len();
        if c.junk.is_empty() || c.junk[0].0 .0.is_empty() || c.junk.iter().any(|(l, _)| l.0.first() == Some(&b'>') || l.0.contains(&b'\n')) {
            return Ok(()); // hand-edited replay files only; the generator never produces it
        }
        for (l, crlf) in &c.junk {
            doc.extend_from_slice(&l.0);
            doc.extend_from_slice(if *crlf { b"\r\n" } else { b"\n" });
        }
        let pre_bytes = doc.len();
        let pre_lines = c.blanks.len() + c.junk.len();
        doc.extend_from_slice(&c.body.0);
        let m = Model::build(Format::Fasta, &c.body.0);
        if m.term != crate::model::Terminal::End || (!c.body.0.is_empty() && c.body.0[0] != b'>') {
            return Ok(()); // not a well-formed body (hand-edited replay, byte-wise minimisation)
        }
        let mut rdr = Reader::with_capacity(std::io::Cursor::new(&doc[..]), c.cap.max(3));
        // the first read fails with InvalidStart at the first preamble line
        let first = if c.first_set {
            let mut set = RecordSet::default();
            rdr.read_record_set(&mut set).and_then(|r| r.err())
        } else {
            match rdr.next() {
                Some(Err(e)) => Some(e),
                Some(Ok(_)) => fail!("preamble:record-before-invalid-start", "next() returned a record although the first non-blank line is {:?}", crate::util::esc(&c.junk[0].0 .0)),
                None => None,
            }
        };
        match first {
            Some(Error::InvalidStart { line, found }) => {
                ensure!(line == c.blanks.len() + 1 && found == c.junk[0].0 .0[0], "preamble:invalid-start-fields", "InvalidStart {{ line: {}, found: {} }} but the first non-blank line is line {} and starts with {}", line, found, c.blanks.len() + 1, c.junk[0].0 .0[0]);
            }
            other => fail!("preamble:no-invalid-start", "first read of a document whose first non-blank line starts with {:?} gave {:?}", c.junk[0].0 .0[0] as char, other.map(|e| e.to_string())),
        }
        if m.recs.is_empty() {
            return Ok(());
        }
        let mut compared = 0u64;
        let mut inbuf_candidates = 0u64;
        for &(t, n) in &c.seeks {
            let k = crate::util::idx(t, m.recs.len());
            let target = Position::new((pre_lines + m.recs[k].line) as u64, (pre_bytes + m.recs[k].byte) as u64);
            if let Err(e) = rdr.seek(&target) {
                fail!("preamble:seek-error", "seek to record {} ({:?}) failed: {}", k, target, e);
            }
            if pre_bytes + m.recs[k].byte < c.cap && blank_bytes > 0 {
                inbuf_candidates += 1;
            }
            for j in 0..n as usize {
                let want = m.recs.get(k + j);
                match (rdr.next(), want) {
                    (None, None) => break,
                    (Some(Ok(r)), Some(w)) => {
                        let got = crate::driver::fa_norm(&r);
                        ensure!(got == w.rec, "preamble:record-after-seek", "read {} after seeking to record {}: got {:?}, sequential reading gives {:?}", j, k, got, w.rec);
                        compared += 1;
                    }
                    (Some(Ok(r)), None) => fail!("preamble:extra-record", "read {} after seeking to record {}: record {:?} beyond the end", j, k, crate::driver::fa_norm(&r)),
                    (Some(Err(e)), _) => fail!("preamble:error-after-seek", "read {} after seeking to record {}: {}", j, k, e),
                    (None, Some(w)) => fail!("preamble:end-after-seek", "read {} after seeking to record {}: end of input, sequential reading gives {:?}", j, k, w.rec),
                }
                let w = want.unwrap();
                let p = match rdr.position() {
                    Some(p) => p.clone(),
                    None => fail!("preamble:no-position", "position() is None after record {} was returned", k + j),
                };
                ensure!(p.byte() == (pre_bytes + w.byte) as u64 && p.line() == (pre_lines + w.line) as u64, "preamble:position-after-seek", "position after reading record {} is (line {}, byte {}), true coordinates (line {}, byte {})", k + j, p.line(), p.byte(), pre_lines + w.line, pre_bytes + w.byte);
            }
        }
        ctx.class_n("records compared", compared);
        if inbuf_candidates > 0 {
            ctx.class("target within the first buffer fill, blank lines in front of the preamble");
        }
        if compared >= 1 {
            ctx.nontrivial(c, c);
        }
        Ok(())
    }
}

pub const RULE_C04: &str = "cases = (format, document (mostly well-formed; FASTQ also with one defect at a generated record), capacity absolute or aimed at record boundaries, permissive policy, chunk/interrupt script, history of 0..24 operations (1 case in 60: a document of several hundred kB read with a buffer of 64 KiB..128 KiB and exact-count reads of up to 249 records) over {next, records() step, read_record_set(slot 0..2), read_record_set_exact(slot, n in 1..20, rarely one of u32::MAX, 2^40, isize::MAX/40+1, isize::MAX, usize::MAX/8, usize::MAX), seek to a record, seek to a position reported earlier, into_records()}). Oracle: strict cursor model (exactly once, in order, content equal to the reference record, k >= 1 for plain sets, k = min(n, remaining) for exact sets, end only with nothing left, untouched slots unchanged, refilled slot = new batch only, error only after all preceding records). Exhaustive sub-check: every operation sequence of length <= 4 (thorough: 5) over a 9-operation alphabet (incl. read_record_set_exact(usize::MAX)) x 6 fixed small documents x 7 capacities. Non-trivial = the history uses >= 2 read kinds, delivers >= 2 records and (switches kind right after a set read, or an exact read crosses the end, or a slot is refilled with fewer records than it held). Distinct = hash(case).";

pub const RULE_C05: &str = "cases as for C04 but seek-heavy (about 40 % seeks), long leading blank regions, capacities smaller and larger than the distance to the target. Oracle: after next() the reported position equals the model's (line, byte) of that record; after a set read a reported position equals the coordinates of the next unread record (or of the invalid FASTQ group); after a seek the reads follow the cursor model from the target (seeking to an invalid FASTQ record reproduces its error). Exhaustive sub-check as for C04, with positions compared. Non-trivial = >= 1 seek followed by >= 1 read that returned a record. Distinct = hash(case).";

/// Complete small scope: every history of length <= L over a 9-operation alphabet x fixed small documents x
/// capacities, checked by the same cursor model.
fn exhaustive_histories(run: &mut Run, positions: bool, max_len: u32) {
    let docs: Vec<(Format, &'static [u8])> = vec![
        (Format::Fasta, b">a\nAC\n>b\nG\nT\n>c\n"),
        (Format::Fasta, b"\n>a x\r\nAC\r\n\r\n>b"),
        (Format::Fasta, b"\n\n\n\n>a\nACGTACGT\n>b\nA"),
        (Format::Fastq, b"@a\nAC\n+\nII\n@b\nG\n+\nI\n@c\n\n+\n\n"),
        (Format::Fastq, b"@a\r\nAC\r\n+\r\nII\r\n@b\r\nG\r\n+\r\nI"),
        (Format::Fastq, b"@a\nAC\n+\nII\n@b\nG\n-\nI\n@c\nA\n+\nI\n"),
    ];
    let alphabet: Vec<Op> = vec![Op::Next, Op::Owned, Op::ReadSet(0), Op::ReadSet(1), Op::ReadExact(0, 1), Op::ReadExact(1, 2), Op::ReadExact(2, 255), Op::Seek(0), Op::Seek(u16::MAX)];
    let caps: Vec<usize> = vec![3, 4, 5, 7, 11, 16, 64];
    let k = alphabet.len() as u64;
    let mut total = 0u64;
    let mut starts = Vec::new();
    for l in 0..=max_len {
        starts.push(total);
        total += k.pow(l);
    }
    let space = format!(
        "all operation sequences of length 0..={} over {{next, records() step, read_record_set(slot 0/1), read_record_set_exact(slot 0, 1), read_record_set_exact(slot 1, 2), seek(first record), seek(last target)}} x {} fixed small documents (LF/CRLF, blank lines, missing final terminator, one with an invalid separator) x capacities {:?}",
        max_len,
        docs.len(),
        caps
    );
    let sub = if positions { "exhaustive-short-histories-positions" } else { "exhaustive-short-histories" };
    run.exhaustive_par(sub, &space, total, move |i, ctx| {
        let mut l = 0usize;
        while l + 1 < starts.len() && starts[l + 1] <= i {
            l += 1;
        }
        let mut x = i - starts[l];
        let mut ops = Vec::with_capacity(l);
        for _ in 0..l {
            ops.push(alphabet[(x % k) as usize].clone());
            x /= k;
        }
        for (format, doc) in &docs {
            let m = Model::build(*format, doc);
            for &cap in &caps {
                ctx.eval();
                let c = Case { format: *format, input: B(doc.to_vec()), cap, policy: PolKind::Std, script: Script::default(), ops: ops.clone() };
                let verdict = crate::engine::guarded(|| {
                    let spec = RunSpec { input: &c.input, cap: c.cap, policy: c.policy, script: &c.script, ops: &c.ops, model: &m };
                    let t = run_ops_fmt(c.format, &spec);
                    livelock_check(fmt_name(c.format), &t)?;
                    check_strict(&m, &t, positions).map(|_| ())
                });
                if let Err(f) = verdict {
                    return Err((serde_json::to_value(&c).unwrap(), f));
                }
                if l >= 2 {
                    ctx.nontrivial(&(format, doc, cap, &ops), &serde_json::json!({"format": format, "input": crate::util::esc(doc), "cap": cap, "ops": format!("{:?}", ops)}));
                }
            }
        }
        Ok(())
    });
}

pub const RULE_PREAMBLE: &str = "Sub-check seek-after-invalid-start (clause 'from any reader state'): document = 0..40 blank lines (LF/CRLF) + 1..4 preamble lines none of which starts with '>' + a well-formed FASTA body; the first read (next() or read_record_set()) must fail with InvalidStart at the first preamble line; then 1..8 seeks to body records (coordinates = model of the body shifted by the preamble) each followed by 0..5 next() calls, records and reported positions compared with the model. Non-trivial = >= 1 record compared after such a seek.";

pub fn run_c04(tier: Tier) -> i32 {
    let mut run = Run::new("C04", tier, "exploration");
    let p = Histories { seek_weight: 2, positions: false };
    run.replays("history-cursor-model", &p);
    run.generated("history-cursor-model", &p, tier.pick(200_000, 3_000_000));
    exhaustive_histories(&mut run, false, if tier == Tier::Quick { 4 } else { 5 });
    run.finish(RULE_C04, &["reference model M_fa/M_fq", "no faults, permissive policies (faults: C14, refusals: C09, totality: C06)"])
}

pub fn run_c05(tier: Tier) -> i32 {
    let mut run = Run::new("C05", tier, "exploration");
    let p = Histories { seek_weight: 24, positions: true };
    run.replays("seek-position-model", &p);
    run.generated("seek-position-model", &p, tier.pick(200_000, 3_000_000));
    exhaustive_histories(&mut run, true, if tier == Tier::Quick { 4 } else { 5 });
    let l = super::large::LargeCoords { errors: false };
    run.replays("large-coordinates", &l);
    run.generated("large-coordinates", &l, tier.pick(300, 6_000));
    super::large::run_beyond(&mut run, false);
    run.replays("seek-after-invalid-start", &Preamble);
    run.generated("seek-after-invalid-start", &Preamble, tier.pick(60_000, 1_000_000));
    run.finish(&format!("{} {} {}", RULE_C05, RULE_PREAMBLE, super::large::RULE_LARGE), &["reference model M_fa/M_fq gives the true coordinates", "seek targets are record starts (and the invalid FASTQ group) only"])
}

pub fn replay_c04(run: &mut Run, file: &std::path::Path) -> Option<bool> {
    run.replay_file("history-cursor-model", &Histories { seek_weight: 2, positions: false }, file, true)
        .or_else(|| run.replay_file("exhaustive-short-histories", &Histories { seek_weight: 2, positions: false }, file, true))
}
pub fn replay_c05(run: &mut Run, file: &std::path::Path) -> Option<bool> {
    run.replay_file("seek-position-model", &Histories { seek_weight: 24, positions: true }, file, true)
        .or_else(|| run.replay_file("exhaustive-short-histories-positions", &Histories { seek_weight: 24, positions: true }, file, true))
        .or_else(|| run.replay_file("large-coordinates", &super::large::LargeCoords { errors: false }, file, true))
        .or_else(|| run.replay_file("seek-after-invalid-start", &Preamble, file, true))
        .or_else(|| run.replay_file("beyond-4-gib", &super::large::Beyond4G { errors: false, variants: &[0] }, file, true))
}
