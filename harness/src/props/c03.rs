//! C03 — results do not depend on capacity, policy or read chunking. Differential between two
//! configurations of the same code; no reference model involved. (DESIGN.md §4 C03)

use crate::engine::{boxed, CheckResult, Ctx, Prop, Run, Tier};
use crate::gen::{self, Cfg};
use crate::light::{fmt_name, read_all, Mode};
use crate::model::{Format, Model};
use crate::util::B;
use crate::{ensure, fail};
use proptest::prelude::*;
use serde_derive::{Deserialize, Serialize};

#[derive(Clone, Debug, Serialize, Deserialize, Hash)]
pub struct Case {
    pub format: Format,
    pub input: B,
    pub a: Cfg,
    pub b: Cfg,
    pub mode: Mode,
}

pub struct ConfigDiff;

fn cfg_for(format: Format, input: &B, spec: &gen::CapSpec, policy: crate::policy::PolKind, script: crate::source::Script) -> Cfg {
    // the model is used only to aim capacities at record boundaries, never as an oracle here
    let m = Model::build(format, input);
    Cfg { cap: gen::resolve_cap(spec, &m, input.len()), policy, script }
}

impl Prop for ConfigDiff {
    type Case = Case;
    fn strategy(&self, _tier: Tier) -> BoxedStrategy<Case> {
        let per_format = |f: Format| {
            (
                gen::any_input(f, true),
                (gen::cap_spec(), gen::policy_permissive(), gen::script()),
                (gen::cap_spec(), gen::policy_permissive(), gen::script()),
                prop_oneof![2 => Just(Mode::Next), 2 => Just(Mode::Sets), 1 => Just(Mode::Records)],
            )
                .prop_map(move |(input, a, b, mode)| {
                    let a = cfg_for(f, &input, &a.0, a.1, a.2);
                    let b = cfg_for(f, &input, &b.0, b.1, b.2);
                    Case { format: f, input, a, b, mode }
                })
        };
        boxed(prop_oneof![per_format(Format::Fasta), per_format(Format::Fastq)])
    }

    fn check(&self, c: &Case, ctx: &mut Ctx) -> CheckResult {
        let f = fmt_name(c.format);
        let max = c.input.iter().filter(|&&b| b == b'\n').count() + 8;
        let ra = read_all(c.format, &c.input, c.a.cap, c.a.policy, &c.a.script, c.mode, max);
        let rb = read_all(c.format, &c.input, c.b.cap, c.b.policy, &c.b.script, c.mode, max);
        crate::interp_livelock(&ra.src, c.format)?;
        crate::interp_livelock(&rb.src, c.format)?;
        let (ca, cb) = (ra.src.borrow().calls.len(), rb.src.borrow().calls.len());
        let (ga, gb) = (ra.pol.borrow().len(), rb.pol.borrow().len());
        let differ = ca != cb || ga != gb || c.a.cap != c.b.cap;
        ctx.class(match c.mode {
            Mode::Next => "mode: next",
            Mode::Sets => "mode: record sets",
            _ => "mode: records()",
        });
        if ga != gb {
            ctx.class("the two runs grew the buffer a different number of times");
        }
        if ca != cb {
            ctx.class("the two runs made a different number of source reads");
        }
        if ra.src.borrow().interrupted + rb.src.borrow().interrupted > 0 {
            ctx.class("interrupted reads occurred");
        }
        if c.a.script.chunks == [1] || c.b.script.chunks == [1] {
            ctx.class("one byte at a time");
        }
        if c.mode == Mode::Sets && ra.batches != rb.batches {
            ctx.class("batch boundaries differ");
        }
        if differ && ra.outs.len() > 3 {
            ctx.nontrivial(&(c.format, &c.input, &c.a, &c.b, c.mode), c);
        }
        if ra.outs != rb.outs {
            let i = (0..ra.outs.len().max(rb.outs.len())).find(|&i| ra.outs.get(i) != rb.outs.get(i)).unwrap();
            fail!(
                format!("{}/{:?}/outcome-depends-on-configuration", f, c.mode),
                "item {} differs between configurations: A(cap {}) -> {:?}, B(cap {}) -> {:?}\n  A all: {:?}\n  B all: {:?}",
                i,
                c.a.cap,
                ra.outs.get(i),
                c.b.cap,
                rb.outs.get(i),
                ra.outs,
                rb.outs
            );
        }
        for i in 0..ra.pos.len().min(rb.pos.len()) {
            match c.mode {
                Mode::Sets => {
                    if let (Some(pa), Some(pb)) = (ra.pos[i], rb.pos[i]) {
                        ensure!(
                            pa == pb,
                            format!("{}/sets/position-depends-on-configuration", f),
                            "position (line, byte) reported after {} delivered items differs: A(cap {}) {:?}, B(cap {}) {:?}",
                            i + 1,
                            c.a.cap,
                            pa,
                            c.b.cap,
                            pb
                        );
                    }
                }
                _ => {
                    ensure!(
                        ra.pos[i] == rb.pos[i],
                        format!("{}/{:?}/position-depends-on-configuration", f, c.mode),
                        "position (line, byte) reported after item {} ({:?}) differs: A(cap {}) {:?}, B(cap {}) {:?}",
                        i,
                        ra.outs[i],
                        c.a.cap,
                        ra.pos[i],
                        c.b.cap,
                        rb.pos[i]
                    );
                }
            }
        }
        Ok(())
    }
}

pub const RULE: &str = "cases = (format, any input incl. out-of-domain FASTQ, configuration A, configuration B, mode in {next, records(), plain record-set loop}); configuration = capacity (absolute or aimed at record boundaries) x permissive policy (Std, DoubleUntil, Add(k), DoubleUntilLimited with huge limit) x chunk script (all / 1 / 2 / 3 / random) x Interrupted pattern (none / scattered / storm). Oracle: the two flat traces (records, errors with all fields, positions, End point) are identical. Non-trivial = the two runs really exercised different buffer alignments (different capacity, number of source reads or growth steps) and at least one record or error was produced. Distinct = hash(case).";

pub fn run(tier: Tier) -> i32 {
    let mut run = Run::new("C03", tier, "exploration");
    let p = ConfigDiff;
    run.replays("config-differential", &p);
    run.generated("config-differential", &p, tier.pick(100_000, 4_000_000));
    run.finish(
        RULE,
        &["only policies that permit the needed size are generated (the property quantifies over those)", "no reference model: the code is compared with itself under two configurations"],
    )
}

pub fn replay(run: &mut Run, file: &std::path::Path) -> Option<bool> {
    run.replay_file("config-differential", &ConfigDiff, file, true)
}
