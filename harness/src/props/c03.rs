//! C03 — results do not depend on capacity, policy or read chunking. Differential between two
//! configurations of the same code; no reference model involved. (DESIGN.md §4 C03)

use crate::engine::{boxed, CheckResult, Ctx, Prop, Run, Tier};
use crate::gen::{self, Cfg};
use crate::light::{fmt_name, read_all, Mode};
use crate::model::{Format, Model};
use crate::util::B;
use crate::{ensure, fail};
use proptest::prelude::*;
use serde_derive::{Deserialize, Serialize};

#[derive(Clone, Debug, Serialize, Deserialize, Hash)]
pub struct Case {
    pub format: Format,
    pub input: B,
    pub a: Cfg,
    pub b: Cfg,
    pub mode: Mode,
}

pub struct ConfigDiff;

fn cfg_for(format: Format, input: &B, spec: &gen::CapSpec, policy: crate::policy::PolKind, script: crate::source::Script) -> Cfg {
    // the model is used only to aim capacities at record boundaries, never as an oracle here
    let m = Model::build(format, input);
    Cfg { cap: gen::resolve_cap(spec, &m, input.len()), policy, script }
}

impl Prop for ConfigDiff {
    type Case = Case;
    fn input_bytes<'a>(&self, c: &'a mut Self::Case) -> Option<&'a mut Vec<u8>> {
        Some(&mut c.input.0)
    }
    fn strategy(&self, _tier: Tier) -> BoxedStrategy<Case> {
        let per_format = |f: Format| {
            (
                gen::any_input(f, true),
                (gen::cap_spec(), gen::policy_permissive(), gen::script()),
                (gen::cap_spec(), gen::policy_permissive(), gen::script()),
                prop_oneof![2 => Just(Mode::Next), 2 => Just(Mode::Sets), 1 => Just(Mode::Records)],
            )
                .prop_map(move |(input, a, b, mode)| {
                    let a = cfg_for(f, &input, &a.0, a.1, a.2);
                    let b = cfg_for(f, &input, &b.0, b.1, b.2);
                    Case { format: f, input, a, b, mode }
                })
        };
        let big = |f: Format| {
            (gen::big_input(f), (gen::big_cap(), gen::policy_permissive()), (gen::big_cap(), gen::policy_permissive()), prop_oneof![Just(Mode::Next), Just(Mode::Sets)]).prop_map(
                move |(input, a, b, mode)| Case {
                    format: f,
                    input,
                    a: Cfg { cap: a.0, policy: a.1, script: Default::default() },
                    b: Cfg { cap: b.0, policy: b.1, script: crate::source::Script { chunks: vec![4093], ..Default::default() } },
                    mode,
                },
            )
        };
        boxed(prop_oneof![20 => per_format(Format::Fasta), 20 => per_format(Format::Fastq), 1 => big(Format::Fasta), 1 => big(Format::Fastq)])
    }

    fn check(&self, c: &Case, ctx: &mut Ctx) -> CheckResult {
        let f = fmt_name(c.format);
        let max = c.input.iter().filter(|&&b| b == b'\n').count() + 8;
        let ra = read_all(c.format, &c.input, c.a.cap, c.a.policy, &c.a.script, c.mode, max);
        let rb = read_all(c.format, &c.input, c.b.cap, c.b.policy, &c.b.script, c.mode, max);
        crate::interp_livelock(&ra.src, c.format)?;
        crate::interp_livelock(&rb.src, c.format)?;
        let (ca, cb) = (ra.src.borrow().calls.len(), rb.src.borrow().calls.len());
        let (ga, gb) = (ra.pol.borrow().len(), rb.pol.borrow().len());
        let differ = ca != cb || ga != gb || c.a.cap != c.b.cap;
        ctx.class(match c.mode {
            Mode::Next => "mode: next",
            Mode::Sets => "mode: record sets",
            _ => "mode: records()",
        });
        if ga != gb {
            ctx.class("the two runs grew the buffer a different number of times");
        }
        if c.input.len() > 10_000 {
            ctx.class("input larger than 10 kB");
        }
        if ca != cb {
            ctx.class("the two runs made a different number of source reads");
        }
        if ra.src.borrow().interrupted + rb.src.borrow().interrupted > 0 {
            ctx.class("interrupted reads occurred");
        }
        if c.a.script.chunks == [1] || c.b.script.chunks == [1] {
            ctx.class("one byte at a time");
        }
        if c.mode == Mode::Sets && ra.batches != rb.batches {
            ctx.class("batch boundaries differ");
        }
        if differ && ra.outs.len() > 3 {
            ctx.nontrivial(&(c.format, &c.input, &c.a, &c.b, c.mode), c);
        }
        if ra.outs != rb.outs {
            let i = (0..ra.outs.len().max(rb.outs.len())).find(|&i| ra.outs.get(i) != rb.outs.get(i)).unwrap();
            fail!(
                format!("{}/{:?}/outcome-depends-on-configuration", f, c.mode),
                "item {} differs between configurations: A(cap {}) -> {:?}, B(cap {}) -> {:?}\n  A all: {:?}\n  B all: {:?}",
                i,
                c.a.cap,
                ra.outs.get(i),
                c.b.cap,
                rb.outs.get(i),
                ra.outs,
                rb.outs
            );
        }
        // "every growth policy that permits the needed size": re-run configuration A with the tightest limited
        // policy that still permits the needed size. Nothing may change - in particular the policy must never be asked beyond it.
        // The needed size is derived from the record extents (generator aid, as for the capacities): the first size
        // in the policy's own growth chain at which every record fits (one byte of look-ahead slack, see C09).
        let needed: Option<usize> = {
            let m = Model::build(c.format, &c.input);
            if m.term == crate::model::Terminal::Unspecified {
                None
            } else {
                let mut s = c.a.cap;
                let mut ok = true;
                'outer: for j in 0..=m.recs.len() {
                    let mut guard = 0;
                    while super::c09::needs(&m, &c.input, j, s) == Some(true) {
                        match c.a.policy.answer(s) {
                            Some(n) if n > s && guard < 64 => s = n,
                            _ => {
                                ok = false;
                                break 'outer;
                            }
                        }
                        guard += 1;
                    }
                }
                if ok {
                    Some(s)
                } else {
                    None
                }
            }
        };
        let tight = match (c.a.policy, needed) {
            (crate::policy::PolKind::Std, Some(n)) if n < (1 << 22) => Some((crate::policy::PolKind::RefuseAbove(n as u32), n)),
            (crate::policy::PolKind::DoubleUntil(t), Some(n)) => Some((crate::policy::PolKind::DoubleUntilLimited(t, n as u32), n)),
            _ => None,
        };
        if let Some((tp, max_adopted)) = tight {
            let rt = read_all(c.format, &c.input, c.a.cap, tp, &c.a.script, c.mode, max);
            crate::interp_livelock(&rt.src, c.format)?;
            ctx.class("tight-limit rerun (policy permits exactly the needed size)");
            if rt.outs != ra.outs {
                let i = (0..ra.outs.len().max(rt.outs.len())).find(|&i| ra.outs.get(i) != rt.outs.get(i)).unwrap();
                fail!(
                    format!("{}/{:?}/outcome-depends-on-policy-limit", f, c.mode),
                    "item {} differs when {:?} is replaced by {:?} (limit = the size needed by the largest record, {}): {:?} vs {:?}\n  unlimited: {:?}\n  limited:   {:?}",
                    i,
                    c.a.policy,
                    tp,
                    max_adopted,
                    ra.outs.get(i),
                    rt.outs.get(i),
                    ra.outs,
                    rt.outs
                );
            }
        }
        for i in 0..ra.pos.len().min(rb.pos.len()) {
            match c.mode {
                Mode::Sets => {
                    if let (Some(pa), Some(pb)) = (ra.pos[i], rb.pos[i]) {
                        ensure!(
                            pa == pb,
                            format!("{}/sets/position-depends-on-configuration", f),
                            "position (line, byte) reported after {} delivered items differs: A(cap {}) {:?}, B(cap {}) {:?}",
                            i + 1,
                            c.a.cap,
                            pa,
                            c.b.cap,
                            pb
                        );
                    }
                }
                _ => {
                    ensure!(
                        ra.pos[i] == rb.pos[i],
                        format!("{}/{:?}/position-depends-on-configuration", f, c.mode),
                        "position (line, byte) reported after item {} ({:?}) differs: A(cap {}) {:?}, B(cap {}) {:?}",
                        i,
                        ra.outs[i],
                        c.a.cap,
                        ra.pos[i],
                        c.b.cap,
                        rb.pos[i]
                    );
                }
            }
        }
        Ok(())
    }
}

pub const RULE: &str = "cases = (format, any input incl. out-of-domain FASTQ, configuration A, configuration B, mode in {next, records(), plain record-set loop}); configuration = capacity (absolute or aimed at record boundaries) x permissive policy (Std, DoubleUntil, Add(k), DoubleUntilLimited with huge limit) x chunk script (all / 1 / 2 / 3 / random) x Interrupted pattern (none / scattered / storm). Oracle: the two flat traces (records, errors with all fields, positions, End point) are identical; additionally configuration A is re-run with the tightest limited policy that still permits every size it adopted (RefuseAbove / DoubleUntilLimited with limit = the first size of the policy's growth chain at which the largest record fits) and must give the same outcome. Non-trivial = the two runs really exercised different buffer alignments (different capacity, number of source reads or growth steps) and at least one record or error was produced. Distinct = hash(case).";

pub fn run(tier: Tier) -> i32 {
    let mut run = Run::new("C03", tier, "exploration");
    let p = ConfigDiff;
    run.replays("config-differential", &p);
    run.generated("config-differential", &p, tier.pick(200_000, 4_000_000));
    let h = super::huge::HugeDiff;
    run.replays("huge-records", &h);
    run.generated("huge-records", &h, tier.pick(4, 40));
    run.finish(
        RULE,
        &["only policies that permit the needed size are generated (the property quantifies over those)", "no reference model: the code is compared with itself under two configurations"],
    )
}

pub fn replay(run: &mut Run, file: &std::path::Path) -> Option<bool> {
    run.replay_file("config-differential", &ConfigDiff, file, true).or_else(|| run.replay_file("huge-records", &super::huge::HugeDiff, file, true))
}
