//! C03 — results do not depend on capacity, policy or read chunking. Differential between two
//! configurations of the same code; no reference model involved. (DESIGN.md §4 C03)

use crate::engine::{boxed, CheckResult, Ctx, Prop, Run, Tier};
use crate::gen::{self, Cfg};
use crate::light::{fmt_name, read_all, Mode};
use crate::model::{Format, Model};
use crate::util::B;
use crate::{ensure, fail};
use proptest::prelude::*;
use serde_derive::{Deserialize, Serialize};

#[derive(Clone, Debug, Serialize, Deserialize, Hash)]
pub struct Case {
    pub format: Format,
    pub input: B,
    pub a: Cfg,
    pub b: Cfg,
    pub mode: Mode,
}

pub struct ConfigDiff;

fn cfg_for(format: Format, input: &B, spec: &gen::CapSpec, policy: crate::policy::PolKind, script: crate::source::Script) -> Cfg {
    // the model is used only to aim capacities at record boundaries, never as an oracle here
    let m = Model::build(format, input);
    Cfg { cap: gen::resolve_cap(spec, &m, input.len()), policy, script }
}

impl Prop for ConfigDiff {
    type Case = Case;
    fn input_bytes<'a>(&self, c: &'a mut Self::Case) -> Option<&'a mut Vec<u8>> {
        Some(&mut c.input.0)
    }
    fn strategy(&self, _tier: Tier) -> BoxedStrategy<Case> {
        let per_format = |f: Format| {
            (
                gen::any_input(f, true),
                (gen::cap_spec(), gen::policy_permissive(), gen::script()),
                (gen::cap_spec(), gen::policy_permissive(), gen::script()),
                prop_oneof![4 => Just(Mode::Next), 4 => Just(Mode::Sets), 2 => Just(Mode::Records), 2 => prop_oneof![6 => 1u8..6, 1 => 250u8..=255].prop_map(Mode::Exact)],
            )
                .prop_map(move |(input, a, b, mode)| {
                    let a = cfg_for(f, &input, &a.0, a.1, a.2);
                    let b = cfg_for(f, &input, &b.0, b.1, b.2);
                    Case { format: f, input, a, b, mode }
                })
        };
        let big = |f: Format| {
            (gen::big_input(f), (gen::big_cap(), gen::policy_permissive()), (gen::big_cap(), gen::policy_permissive()), prop_oneof![Just(Mode::Next), Just(Mode::Sets)]).prop_map(
                move |(input, a, b, mode)| Case {
                    format: f,
                    input,
                    a: Cfg { cap: a.0, policy: a.1, script: Default::default() },
                    b: Cfg { cap: b.0, policy: b.1, script: crate::source::Script { chunks: vec![4093], ..Default::default() } },
                    mode,
                },
            )
        };
        boxed(prop_oneof![20 => per_format(Format::Fasta), 20 => per_format(Format::Fastq), 1 => big(Format::Fasta), 1 => big(Format::Fastq)])
    }

    fn check(&self, c: &Case, ctx: &mut Ctx) -> CheckResult {
        let f = fmt_name(c.format);
        let max = c.input.iter().filter(|&&b| b == b'\n').count() + 8;
        let ra = read_all(c.format, &c.input, c.a.cap, c.a.policy, &c.a.script, c.mode, max);
        let rb = read_all(c.format, &c.input, c.b.cap, c.b.policy, &c.b.script, c.mode, max);
        crate::interp_livelock(&ra.src, c.format)?;
        crate::interp_livelock(&rb.src, c.format)?;
        let (ca, cb) = (ra.src.borrow().calls.len(), rb.src.borrow().calls.len());
        let (ga, gb) = (ra.pol.borrow().len(), rb.pol.borrow().len());
        let differ = ca != cb || ga != gb || c.a.cap != c.b.cap;
        ctx.class(match c.mode {
            Mode::Next => "mode: next",
            Mode::Sets => "mode: record sets",
            Mode::Exact(_) => "mode: record sets filled with read_record_set_exact(n)",
            _ => "mode: records()",
        });
        if ga != gb {
            ctx.class("the two runs grew the buffer a different number of times");
        }
        if c.input.len() > 10_000 {
            ctx.class("input larger than 10 kB");
        }
        if ca != cb {
            ctx.class("the two runs made a different number of source reads");
        }
        if ra.src.borrow().interrupted + rb.src.borrow().interrupted > 0 {
            ctx.class("interrupted reads occurred");
        }
        if c.a.script.chunks == [1] || c.b.script.chunks == [1] {
            ctx.class("one byte at a time");
        }
        if c.mode == Mode::Sets && ra.batches != rb.batches {
            ctx.class("batch boundaries differ");
        }
        if let Mode::Exact(n) = c.mode {
            // exact-count batches do not depend on the configuration either
            ensure!(
                ra.batches == rb.batches,
                format!("{}/exact/batch-sizes-depend-on-configuration", f),
                "read_record_set_exact({}) delivered batches of {:?} records with configuration A (cap {}) and {:?} with B (cap {})",
                crate::interp::exact_count(n),
                ra.batches,
                c.a.cap,
                rb.batches,
                c.b.cap
            );
        }
        if differ && ra.outs.len() > 3 {
            ctx.nontrivial(&(c.format, &c.input, &c.a, &c.b, c.mode), c);
        }
        if ra.outs != rb.outs {
            let i = (0..ra.outs.len().max(rb.outs.len())).find(|&i| ra.outs.get(i) != rb.outs.get(i)).unwrap();
            fail!(
                format!("{}/{:?}/outcome-depends-on-configuration", f, c.mode),
                "item {} differs between configurations: A(cap {}) -> {:?}, B(cap {}) -> {:?}\n  A all: {:?}\n  B all: {:?}",
                i,
                c.a.cap,
                ra.outs.get(i),
                c.b.cap,
                rb.outs.get(i),
                ra.outs,
                rb.outs
            );
        }
        // "every growth policy that permits the needed size": re-run configuration A with the tightest limited
        // policy that still permits the needed size. Nothing may change - in particular the policy must never be asked beyond it.
        // The needed size is derived from the record extents (generator aid, as for the capacities): the first size
        // in the policy's own growth chain at which every record fits (one byte of look-ahead slack, see C09).
        let needed: Option<usize> = {
            let m = Model::build(c.format, &c.input);
            if m.term == crate::model::Terminal::Unspecified {
                None
            } else {
                let mut s = c.a.cap;
                let mut ok = true;
                'outer: for j in 0..=m.recs.len() {
                    let mut guard = 0;
                    while super::c09::needs(&m, &c.input, j, s) == Some(true) {
                        match c.a.policy.answer(s) {
                            Some(n) if n > s && guard < 64 => s = n,
                            _ => {
                                ok = false;
                                break 'outer;
                            }
                        }
                        guard += 1;
                    }
                }
                if ok {
                    Some(s)
                } else {
                    None
                }
            }
        };
        // (exact-count reads keep earlier records of the batch in the buffer: the size they need is not a function of
        // the record extents alone, so the rerun is restricted to the other modes)
        let needed = if matches!(c.mode, Mode::Exact(_)) { None } else { needed };
        let tight = match (c.a.policy, needed) {
            (crate::policy::PolKind::Std, Some(n)) if n < (1 << 22) => Some((crate::policy::PolKind::RefuseAbove(n as u32), n)),
            (crate::policy::PolKind::DoubleUntil(t), Some(n)) => Some((crate::policy::PolKind::DoubleUntilLimited(t, n as u32), n)),
            _ => None,
        };
        if let Some((tp, max_adopted)) = tight {
            let rt = read_all(c.format, &c.input, c.a.cap, tp, &c.a.script, c.mode, max);
            crate::interp_livelock(&rt.src, c.format)?;
            ctx.class("tight-limit rerun (policy permits exactly the needed size)");
            if rt.outs != ra.outs {
                let i = (0..ra.outs.len().max(rt.outs.len())).find(|&i| ra.outs.get(i) != rt.outs.get(i)).unwrap();
                fail!(
                    format!("{}/{:?}/outcome-depends-on-policy-limit", f, c.mode),
                    "item {} differs when {:?} is replaced by {:?} (limit = the size needed by the largest record, {}): {:?} vs {:?}\n  unlimited: {:?}\n  limited:   {:?}",
                    i,
                    c.a.policy,
                    tp,
                    max_adopted,
                    ra.outs.get(i),
                    rt.outs.get(i),
                    ra.outs,
                    rt.outs
                );
            }
        }
        for i in 0..ra.pos.len().min(rb.pos.len()) {
            match c.mode {
                Mode::Sets | Mode::Exact(_) => {
                    if let (Some(pa), Some(pb)) = (ra.pos[i], rb.pos[i]) {
                        ensure!(
                            pa == pb,
                            format!("{}/sets/position-depends-on-configuration", f),
                            "position (line, byte) reported after {} delivered items differs: A(cap {}) {:?}, B(cap {}) {:?}",
                            i + 1,
                            c.a.cap,
                            pa,
                            c.b.cap,
                            pb
                        );
                    }
                }
                _ => {
                    ensure!(
                        ra.pos[i] == rb.pos[i],
                        format!("{}/{:?}/position-depends-on-configuration", f, c.mode),
                        "position (line, byte) reported after item {} ({:?}) differs: A(cap {}) {:?}, B(cap {}) {:?}",
                        i,
                        ra.outs[i],
                        c.a.cap,
                        ra.pos[i],
                        c.b.cap,
                        rb.pos[i]
                    );
                }
            }
        }
        Ok(())
    }
}

pub const RULE: &str = "cases = (format, any input incl. out-of-domain FASTQ, configuration A, configuration B, mode in {next, records(), plain record-set loop, record-set loop with read_record_set_exact(n), n in 1..5 or huge}); configuration = capacity (absolute or aimed at record boundaries) x permissive policy (Std, DoubleUntil, Add(k), DoubleUntilLimited with huge limit) x chunk script (all / 1 / 2 / 3 / random) x Interrupted pattern (none / scattered / storm). Oracle: the two flat traces (records, errors with all fields, positions, End point) are identical; additionally configuration A is re-run with the tightest limited policy that still permits every size it adopted (RefuseAbove / DoubleUntilLimited with limit = the first size of the policy's growth chain at which the largest record fits) and must give the same outcome. Exhaustive sub-checks: every string up to length 5 (thorough: 7) over a structural alphabet x every pair of capacities 3..8 (thorough: 3..10), even capacities read one byte at a time. Non-trivial = the two runs really exercised different buffer alignments (different capacity, number of source reads or growth steps) and at least one record or error was produced. Distinct = hash(case).";

pub fn run(tier: Tier) -> i32 {
    let mut run = Run::new("C03", tier, "exploration");
    let p = ConfigDiff;
    run.replays("config-differential", &p);
    run.generated("config-differential", &p, tier.pick(200_000, 4_000_000));
    // complete small scope: every string over a structural alphabet x every pair of capacities, next() mode
    let (max_len, max_cap) = if tier == Tier::Quick { (5u32, 8usize) } else { (7u32, 10usize) };
    for (format, alphabet) in [(Format::Fasta, &b">\n\rA "[..]), (Format::Fastq, &b"@+\n\rA"[..])] {
        let k = alphabet.len() as u64;
        let mut total = 0u64;
        let mut starts = Vec::new();
        for l in 0..=max_len {
            starts.push(total);
            total += k.pow(l);
        }
        let space = format!("{:?}: all strings of length 0..={} over {:?} x all pairs of capacities 3..={} (next() until End + 2; B reads one byte at a time)", format, max_len, String::from_utf8_lossy(alphabet), max_cap);
        let sub = if format == Format::Fasta { "exhaustive-pairs-fasta" } else { "exhaustive-pairs-fastq" };
        run.exhaustive_par(sub, &space, total, move |i, ctx| {
            let mut l = 0usize;
            while l + 1 < starts.len() && starts[l + 1] <= i {
                l += 1;
            }
            let mut x = i - starts[l];
            let mut sbytes = Vec::with_capacity(l);
            for _ in 0..l {
                sbytes.push(alphabet[(x % k) as usize]);
                x /= k;
            }
            let one = crate::source::Script { chunks: vec![1], ..Default::default() };
            let all = crate::source::Script::default();
            let max = l + 6;
            // read once per capacity, then compare all pairs
            let mut runs = Vec::new();
            for cap in 3..=max_cap {
                let script = if cap % 2 == 0 { &one } else { &all };
                let r = crate::engine::guarded(|| {
                    let r = read_all(format, &sbytes, cap, crate::policy::PolKind::Std, script, Mode::Next, max);
                    crate::interp_livelock(&r.src, format)?;
                    Ok(())
                });
                let case = |a: usize, b: usize| Case {
                    format,
                    input: B(sbytes.clone()),
                    a: Cfg { cap: a, policy: crate::policy::PolKind::Std, script: if a % 2 == 0 { one.clone() } else { all.clone() } },
                    b: Cfg { cap: b, policy: crate::policy::PolKind::Std, script: if b % 2 == 0 { one.clone() } else { all.clone() } },
                    mode: Mode::Next,
                };
                if let Err(f) = r {
                    return Err((serde_json::to_value(&case(cap, cap)).unwrap(), f));
                }
                let r = read_all(format, &sbytes, cap, crate::policy::PolKind::Std, script, Mode::Next, max);
                runs.push((cap, r.outs, r.pos));
                let _ = case;
            }
            for a in 0..runs.len() {
                for b in a + 1..runs.len() {
                    ctx.eval();
                    if runs[a].1 != runs[b].1 || runs[a].2 != runs[b].2 {
                        let c = Case {
                            format,
                            input: B(sbytes.clone()),
                            a: Cfg { cap: runs[a].0, policy: crate::policy::PolKind::Std, script: if runs[a].0 % 2 == 0 { one.clone() } else { all.clone() } },
                            b: Cfg { cap: runs[b].0, policy: crate::policy::PolKind::Std, script: if runs[b].0 % 2 == 0 { one.clone() } else { all.clone() } },
                            mode: Mode::Next,
                        };
                        return Err((
                            serde_json::to_value(&c).unwrap(),
                            crate::engine::Failure::new(
                                format!("{}/Next/outcome-depends-on-configuration", fmt_name(format)),
                                format!("input {:?}: capacity {} gives {:?} (positions {:?}), capacity {} gives {:?} (positions {:?})", B(sbytes.clone()), runs[a].0, runs[a].1, runs[a].2, runs[b].0, runs[b].1, runs[b].2),
                            ),
                        ));
                    }
                }
            }
            if l >= 2 {
                ctx.nontrivial(&(format, &sbytes), &serde_json::json!({"format": format, "input": crate::util::esc(&sbytes), "capacities": format!("3..={}", max_cap)}));
            }
            Ok(())
        });
    }
    let h = super::huge::HugeDiff;
    run.replays("huge-records", &h);
    run.generated("huge-records", &h, tier.pick(4, 40));
    run.finish(
        RULE,
        &["only policies that permit the needed size are generated (the property quantifies over those)", "no reference model: the code is compared with itself under two configurations"],
    )
}

pub fn replay(run: &mut Run, file: &std::path::Path) -> Option<bool> {
    run.replay_file("config-differential", &ConfigDiff, file, true)
        .or_else(|| run.replay_file("exhaustive-pairs-fasta", &ConfigDiff, file, true))
        .or_else(|| run.replay_file("exhaustive-pairs-fastq", &ConfigDiff, file, true))
        .or_else(|| run.replay_file("huge-records", &super::huge::HugeDiff, file, true))
}
