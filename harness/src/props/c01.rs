//! C01 — FASTA reading returns exactly the records the format rules define. (DESIGN.md §4 C01)

use crate::engine::{boxed, CheckResult, Ctx, Prop, Run, Tier};
use crate::gen::{self, Cfg};
use crate::light::{compare, read_all, Mode};
use crate::model::{Format, Model, Terminal};
use crate::policy::PolKind;
use crate::source::Script;
use crate::util::B;
use crate::fail;
use proptest::prelude::*;
use serde_derive::{Deserialize, Serialize};
use serde_json::json;

#[derive(Clone, Debug, Serialize, Deserialize, Hash)]
pub struct Case {
    pub input: B,
    pub cfg: Cfg,
    pub mode: Mode,
}

pub struct ReadModel(pub Format);

pub fn mode3() -> BoxedStrategy<Mode> {
    prop_oneof![3 => Just(Mode::Next), 1 => Just(Mode::Records), 1 => Just(Mode::IntoRecords)].boxed()
}

/// classification shared by C01 and C02
pub fn classify(m: &Model, input: &[u8], cap: usize, ctx: &mut Ctx) -> bool {
    let has_content = !m.recs.is_empty() || matches!(m.term, Terminal::Err(_));
    let crosses = m.recs.iter().any(|r| r.extent >= cap || (r.byte % cap) + r.extent > cap) || m.term_byte > cap;
    let crlf = input.windows(2).any(|w| w == b"\r\n");
    let empty_seq = m.recs.iter().any(|r| r.rec.lines.iter().all(|l| l.is_empty()));
    let no_final = !input.is_empty() && input.last() != Some(&b'\n');
    let blank = input.windows(2).any(|w| w == b"\n\n") || input.windows(3).any(|w| w == b"\n\r\n") || input.first() == Some(&b'\n');
    if crosses {
        ctx.class("record or blank region crosses a buffer refill");
    }
    if crlf {
        ctx.class("CRLF present");
    }
    if empty_seq {
        ctx.class("record with empty sequence");
    }
    if no_final {
        ctx.class("missing final terminator");
    }
    if blank {
        ctx.class("blank lines");
    }
    if m.recs.iter().any(|r| r.extent >= cap) {
        ctx.class("record needs buffer growth");
    }
    ctx.class(&format!("terminal: {}", gen::term_kind(m)));
    if matches!(m.term, Terminal::Err(_)) && m.term_byte / cap != (input.len().saturating_sub(1)) / cap {
        ctx.class("error group and end of input lie in different buffer windows");
    }
    if matches!(m.term, Terminal::Err(_)) && !m.recs.is_empty() {
        ctx.class("error preceded by valid records");
    }
    if matches!(m.term, Terminal::Unspecified) {
        ctx.class("mixed-terminator-excluded (comparison stops at the out-of-domain group)");
    }
    ctx.class(&format!("records: {}", match m.recs.len() { 0 => "0", 1 => "1", 2..=4 => "2-4", 5..=19 => "5-19", _ => "20+" }));
    if input.len() > 10_000 {
        ctx.class("input larger than 10 kB");
    }
    if cap >= 65536 {
        ctx.class("capacity >= 64 KiB (the default)");
    }
    has_content && (crosses || crlf || empty_seq || no_final || blank)
}

impl Prop for ReadModel {
    type Case = Case;
    fn input_bytes<'a>(&self, c: &'a mut Self::Case) -> Option<&'a mut Vec<u8>> {
        Some(&mut c.input.0)
    }
    fn strategy(&self, _tier: Tier) -> BoxedStrategy<Case> {
        let f = self.0;
        let small = (gen::input_and_cap(f, gen::any_input(f, false)), gen::policy_permissive(), gen::script(), mode3())
            .prop_map(|((input, cap), policy, script, mode)| Case { input, cfg: Cfg { cap, policy, script }, mode });
        // tens of kilobytes, hundreds of records, capacities up to the 64 KiB default and beyond
        let big = (prop_oneof![5 => gen::big_input(f), 1 => gen::exact_len_doc(f)], gen::big_cap(), gen::policy_permissive(), prop_oneof![2 => Just(vec![]), 1 => Just(vec![4096u16]), 1 => Just(vec![1000u16, 7, 65535])], mode3())
            .prop_map(|(input, cap, policy, chunks, mode)| Case { input, cfg: Cfg { cap, policy, script: Script { chunks, ..Default::default() } }, mode });
        boxed(prop_oneof![30 => small, 1 => big])
    }
    fn check(&self, c: &Case, ctx: &mut Ctx) -> CheckResult {
        let m = Model::build(self.0, &c.input);
        if classify(&m, &c.input, c.cfg.cap, ctx) {
            ctx.nontrivial(&(&c.input, c.cfg.cap, &c.cfg.script.chunks), c);
        }
        let max = m.recs.len() + 6;
        let r = read_all(self.0, &c.input, c.cfg.cap, c.cfg.policy, &c.cfg.script, c.mode, max);
        crate::interp_livelock(&r.src, self.0)?;
        compare(&m, &r.outs, c.mode != Mode::Next)
    }
}

/// Exhaustive small scope: all strings of length <= `max_len` over `alphabet` x capacities 3..=12.
pub fn exhaustive(run: &mut Run, format: Format, alphabet: &'static [u8], max_len: u32) {
    let k = alphabet.len() as u64;
    let mut total = 0u64;
    let mut starts = Vec::new();
    for l in 0..=max_len {
        starts.push(total);
        total += k.pow(l);
    }
    let space = format!(
        "all byte strings of length 0..={} over {:?} x initial capacities 3..=12, next() until End + 2, whole-slice source",
        max_len,
        String::from_utf8_lossy(alphabet)
    );
    run.exhaustive_par("exhaustive-small-scope", &space, total, move |i, ctx| {
        // decode index -> string
        let mut l = 0usize;
        while l + 1 < starts.len() && starts[l + 1] <= i {
            l += 1;
        }
        let mut x = i - starts[l];
        let mut s = Vec::with_capacity(l);
        for _ in 0..l {
            s.push(alphabet[(x % k) as usize]);
            x /= k;
        }
        let m = Model::build(format, &s);
        let script = Script::default();
        for cap in 3..=12usize {
            ctx.eval();
            let max = m.recs.len() + 6;
            if classify_light(&m, &s, cap) {
                ctx.nontrivial(&(&s, cap), &json!({"input": crate::util::esc(&s), "cap": cap}));
            }
            let verdict = crate::engine::guarded(|| {
                let r = read_all(format, &s, cap, PolKind::Std, &script, Mode::Next, max);
                crate::interp_livelock(&r.src, format)?;
                compare(&m, &r.outs, false)
            });
            if let Err(f) = verdict {
                let case = Case { input: B(s.clone()), cfg: Cfg { cap, policy: PolKind::Std, script: script.clone() }, mode: Mode::Next };
                return Err((serde_json::to_value(&case).unwrap(), f));
            }
        }
        Ok(())
    });
}

fn classify_light(m: &Model, input: &[u8], cap: usize) -> bool {
    let has_content = !m.recs.is_empty() || matches!(m.term, Terminal::Err(_));
    has_content
        && (m.recs.iter().any(|r| r.extent >= cap || (r.byte % cap) + r.extent > cap)
            || m.term_byte > cap
            || input.contains(&b'\r')
            || input.last() != Some(&b'\n')
            || input.windows(2).any(|w| w == b"\n\n"))
}

pub const RULE: &str = "cases = (input from {grammar-built FASTA documents, 1-3 byte mutations of them, byte soups over a structural alphabet}) x (capacity absolute 3..300 or relative to record extents/offsets/input length) x permissive policy x chunk/interrupt script x {next, records(), into_records()}; thorough adds the complete small-scope enumeration; sub-check huge-records: a few documents with one record of 8-18 MiB (beyond the doubling threshold of the standard policy) read with the default and with tiny capacities. Non-trivial = (>=1 record or an invalid start) and (a record or the leading blank region crosses a buffer refill, or CRLF present, or empty sequence, or missing final terminator, or blank lines). Distinct = hash(input, capacity, chunk script). Sub-check constructors: any input written to a temporary file and read through Reader::new (default 64 KiB capacity), from_path and from_path_with_capacity(3..5000): all three deliver the model's outcome. Sub-check aligned-large: one record larger than a buffer of 64 KiB..128 KiB, its length solved so that a chosen structural byte (terminator of the header / sequence / separator / quality line, the '+') lies at the last byte (+-3) of the buffer when it is full at the initial capacity or after 1..2 doublings; LF / CRLF, whole or chunked reads, next() / record sets: outcome = model.";

pub const RULE_FQ: &str = "cases = (input from {grammar-built FASTQ documents with an optional defect (wrong start byte, wrong separator byte, length mismatch, truncation at any byte, dropped line) at a generated record index, 1-3 byte mutations, byte soups}) x (capacity absolute 3..300 or relative to record extents/offsets/input length) x permissive policy x chunk/interrupt script x {next, records(), into_records()}; thorough adds the complete small-scope enumeration. Groups mixing LF and CRLF between sequence and quality line are outside the claimed domain: the comparison stops there (class mixed-terminator-excluded). Non-trivial = (>=1 record or a format error) and (crosses a buffer refill, or CRLF, or missing final terminator, or blank lines). Distinct = hash(input, capacity, chunk script). Sub-check constructors: any input written to a temporary file and read through Reader::new (default 64 KiB capacity), from_path and from_path_with_capacity(3..5000): all three deliver the model's outcome. Sub-check aligned-large: one record larger than a buffer of 64 KiB..128 KiB, its length solved so that a chosen structural byte (terminator of the header / sequence / separator / quality line, the '+') lies at the last byte (+-3) of the buffer when it is full at the initial capacity or after 1..2 doublings; LF / CRLF, whole or chunked reads, next() / record sets: outcome = model.";

// ------------------------------------------------------------------------------------------------
// the other constructors reach the same parser: new (default capacity), from_path, from_path_with_capacity

#[derive(Clone, Debug, Serialize, Deserialize, Hash)]
pub struct CtorCase {
    pub input: B,
    pub cap: usize,
    /// the format (stored with the case so that a replay file is self-contained)
    #[serde(default)]
    pub fmt: Option<Format>,
}

pub struct Constructors(pub Format);

impl Prop for Constructors {
    type Case = CtorCase;
    fn input_bytes<'a>(&self, c: &'a mut Self::Case) -> Option<&'a mut Vec<u8>> {
        Some(&mut c.input.0)
    }
    fn strategy(&self, _tier: Tier) -> BoxedStrategy<CtorCase> {
        let f = self.0;
        boxed((prop_oneof![6 => gen::any_input(f, false), 1 => gen::big_input(f)], prop_oneof![3usize..64, 64usize..5000]).prop_map(move |(input, cap)| CtorCase { input, cap, fmt: Some(f) }))
    }
    fn check(&self, c: &CtorCase, ctx: &mut Ctx) -> CheckResult {
        use crate::driver::{fa_err, fa_norm, fq_err, fq_norm, Out};
        let fmt = c.fmt.unwrap_or(self.0);
        let m = Model::build(fmt, &c.input);
        if !m.recs.is_empty() {
            ctx.nontrivial(c, c);
        }
        if c.input.len() < 3 {
            ctx.class("file shorter than 3 bytes");
        }
        // a private file per worker thread, removed afterwards
        let path = std::env::temp_dir().join(format!("seqio_verif_ctor_{}_{:?}", std::process::id(), std::thread::current().id()).replace(|ch: char| !ch.is_ascii_alphanumeric() && ch != '_', "_"));
        let _cleanup = crate::util::TempPath(path.clone());
        if let Err(e) = std::fs::write(&path, &c.input.0) {
            fail!("harness/tempfile", "cannot write {}: {}", path.display(), e);
        }
        let max = m.recs.len() + 4;
        macro_rules! drain {
            ($rdr:expr, $norm:ident, $err:ident) => {{
                let mut r = $rdr;
                let mut outs = Vec::new();
                let mut after_end = 0;
                while outs.len() < max + 3 && after_end < 3 {
                    match r.next() {
                        None => {
                            outs.push(Out::End);
                            after_end += 1;
                        }
                        Some(Ok(rec)) => outs.push(Out::Rec($norm(&rec))),
                        Some(Err(e)) => outs.push(Out::Err($err(&e))),
                    }
                }
                outs
            }};
        }
        let mut results: Vec<(&str, Vec<Out>)> = Vec::new();
        match fmt {
            Format::Fasta => {
                use seq_io::fasta::Reader;
                results.push(("new", drain!(Reader::new(&c.input[..]), fa_norm, fa_err)));
                match Reader::from_path(&path) {
                    Ok(r) => results.push(("from_path", drain!(r, fa_norm, fa_err))),
                    Err(e) => fail!("fasta/from_path/open-failed", "from_path({}) failed: {}", path.display(), e),
                }
                match Reader::from_path_with_capacity(&path, c.cap) {
                    Ok(r) => results.push(("from_path_with_capacity", drain!(r, fa_norm, fa_err))),
                    Err(e) => fail!("fasta/from_path_with_capacity/open-failed", "open failed: {}", e),
                }
            }
            Format::Fastq => {
                use seq_io::fastq::Reader;
                results.push(("new", drain!(Reader::new(&c.input[..]), fq_norm, fq_err)));
                match Reader::from_path(&path) {
                    Ok(r) => results.push(("from_path", drain!(r, fq_norm, fq_err))),
                    Err(e) => fail!("fastq/from_path/open-failed", "from_path({}) failed: {}", path.display(), e),
                }
                match Reader::from_path_with_capacity(&path, c.cap) {
                    Ok(r) => results.push(("from_path_with_capacity", drain!(r, fq_norm, fq_err))),
                    Err(e) => fail!("fastq/from_path_with_capacity/open-failed", "open failed: {}", e),
                }
            }
        }
        let _ = std::fs::remove_file(&path);
        for (name, outs) in results {
            if let Err(f) = crate::light::compare(&m, &outs, false) {
                return Err(crate::engine::Failure::new(f.sig.replace("/read/", &format!("/{}/", name)), format!("constructor {}: {}", name, f.msg)));
            }
        }
        Ok(())
    }
}

pub fn run_c02(tier: Tier) -> i32 {
    let mut run = Run::new("C02", tier, "exploration");
    let p = ReadModel(Format::Fastq);
    run.replays("model-differential", &p);
    run.generated("model-differential", &p, tier.pick(300_000, 4_000_000));
    exhaustive(&mut run, Format::Fastq, b"@+\n\rA", if tier == Tier::Quick { 6 } else { 8 });
    let h = super::huge::HugeModel(Format::Fastq);
    run.replays("huge-records", &h);
    run.generated("huge-records", &h, tier.pick(6, 60));
    let al = super::huge::AlignedLarge(Format::Fastq);
    run.replays("aligned-large", &al);
    run.generated("aligned-large", &al, tier.pick(1_500, 30_000));
    let k = Constructors(Format::Fastq);
    run.replays("constructors", &k);
    run.generated("constructors", &k, tier.pick(20_000, 300_000));
    run.finish(
        RULE_FQ,
        &[
            "the reference model M_fq (harness/src/model.rs) is the documented FASTQ rule set of C02, validation order start byte -> separator byte -> lengths",
            "records whose sequence and quality lines end with different terminators are outside the claimed domain; the model stops there",
        ],
    )
}

pub fn replay_c02(run: &mut Run, file: &std::path::Path) -> Option<bool> {
    run.replay_file("model-differential", &ReadModel(Format::Fastq), file, true).or_else(|| run.replay_file("huge-records", &super::huge::HugeModel(Format::Fastq), file, true)).or_else(|| run.replay_file("constructors", &Constructors(Format::Fastq), file, true)).or_else(|| run.replay_file("aligned-large", &super::huge::AlignedLarge(Format::Fastq), file, true))
}

pub fn run(tier: Tier) -> i32 {
    let mut run = Run::new("C01", tier, "exploration");
    let p = ReadModel(Format::Fasta);
    run.replays("model-differential", &p);
    run.generated("model-differential", &p, tier.pick(300_000, 4_000_000));
    exhaustive(&mut run, Format::Fasta, b">\n\rA ", if tier == Tier::Quick { 6 } else { 9 });
    let h = super::huge::HugeModel(Format::Fasta);
    run.replays("huge-records", &h);
    run.generated("huge-records", &h, tier.pick(6, 60));
    let al = super::huge::AlignedLarge(Format::Fasta);
    run.replays("aligned-large", &al);
    run.generated("aligned-large", &al, tier.pick(1_500, 30_000));
    let k = Constructors(Format::Fasta);
    run.replays("constructors", &k);
    run.generated("constructors", &k, tier.pick(20_000, 300_000));
    run.finish(
        RULE,
        &[
            "the reference model M_fa (harness/src/model.rs) is the documented FASTA rule set of C01",
            "policies that return a size <= the current one are outside the BufPolicy contract and never generated",
        ],
    )
}

pub fn replay(run: &mut Run, file: &std::path::Path) -> Option<bool> {
    run.replay_file("model-differential", &ReadModel(Format::Fasta), file, true)
        .or_else(|| run.replay_file("exhaustive-small-scope", &ReadModel(Format::Fasta), file, true))
        .or_else(|| run.replay_file("huge-records", &super::huge::HugeModel(Format::Fasta), file, true))
        .or_else(|| run.replay_file("constructors", &Constructors(Format::Fasta), file, true))
        .or_else(|| run.replay_file("aligned-large", &super::huge::AlignedLarge(Format::Fasta), file, true))
}
