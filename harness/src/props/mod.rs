use crate::engine::{Run, Tier};
use std::path::Path;

pub mod c01;
pub mod c03;
pub mod c04;
pub mod c06;
pub mod c09;
pub mod c10;
pub mod c11;
pub mod c12;
pub mod c13;
pub mod c14;
pub mod c17;
pub mod c18;
pub mod c19;
pub mod c20;
pub mod huge;
pub mod large;

pub fn replay(id: &str, file: &str) -> i32 {
    let mut run = Run::new(id, Tier::Quick, "exploration");
    let f = Path::new(file);
    let r = match id {
        "C01" => c01::replay(&mut run, f),
        "C02" => c01::replay_c02(&mut run, f),
        "C03" => c03::replay(&mut run, f),
        "C04" => c04::replay_c04(&mut run, f),
        "C05" => c04::replay_c05(&mut run, f),
        "C06" => c06::replay(&mut run, f),
        "C09" => c09::replay(&mut run, f),
        "C10" => c10::replay(&mut run, f),
        "C11" => c11::replay(&mut run, f),
        "C12" => c12::replay(&mut run, f),
        "C13" => c13::replay(&mut run, f),
        "C14" => c14::replay(&mut run, f),
        "C17" => c17::replay(&mut run, f),
        "C18" => c18::replay(&mut run, f),
        "C19" => c19::replay(&mut run, f),
        "C20" => c20::replay(&mut run, f),
        _ => None,
    };
    match r {
        Some(true) => 0,
        Some(false) => 1,
        None => {
            eprintln!("replay file {} does not belong to a sub-check of {}", file, id);
            2
        }
    }
}
