//! C09 — the buffer grows only as the policy directs and only when a record does not fit.
//! Oracles on the policy log and the source log. (DESIGN.md §4 C09)

use crate::driver::{Out, SetOut};
use crate::engine::{boxed, CheckResult, Ctx, Prop, Run, Tier};
use crate::gen;
use crate::interp::{check_strict, check_strict_opt, livelock_check, run_ops_fmt, Ev, Op, RunSpec, Trace};
use crate::light::{fmt_name, read_all, Mode};
use crate::model::{Format, Model, NErr, Terminal};
use crate::policy::{PolEvent, PolKind};
use crate::source::{CallKind, Script};
use crate::util::B;
use crate::{ensure, fail};
use proptest::collection::vec;
use proptest::prelude::*;
use seq_io::policy::{BufPolicy, DoubleUntil, DoubleUntilLimited, StdPolicy};
use serde_derive::{Deserialize, Serialize};

// ------------------------------------------------------------------------------------------------
// (5) arithmetic of the built-in policies

#[derive(Clone, Debug, Serialize, Deserialize, Hash)]
pub struct ArithCase {
    pub cur: u64,
    pub t: u64,
    pub limit: u64,
}

pub struct Arithmetic;

impl Prop for Arithmetic {
    type Case = ArithCase;
    fn strategy(&self, _tier: Tier) -> BoxedStrategy<ArithCase> {
        let size = || {
            prop_oneof![
                3 => 1u64..200,
                2 => (0u32..40, -2i64..=2).prop_map(|(s, d)| ((1i64 << s) + d).max(1) as u64),
                2 => ((1u64 << 23) - 3)..((1u64 << 23) + 4),
                1 => 1u64..(1u64 << 40),
            ]
        };
        boxed((size(), size(), size(), -2i64..=2, 0u8..4).prop_map(|(cur, t, l, d, rel)| {
            // limits around the computed new size, so that the refusal threshold is hit on purpose
            let new = if cur < t { cur * 2 } else { cur + t };
            let limit = match rel {
                0 => l,
                _ => (new as i64 + d).max(0) as u64,
            };
            ArithCase { cur, t, limit }
        }))
    }
    fn check(&self, c: &ArithCase, ctx: &mut Ctx) -> CheckResult {
        let (cur, t, limit) = (c.cur as usize, c.t as usize, c.limit as usize);
        let doubled_or_added = |cur: usize, t: usize| if cur < t { cur * 2 } else { cur + t };
        let want = doubled_or_added(cur, t);
        ctx.class(if cur < t { "below the threshold (double)" } else { "at/above the threshold (add)" });
        ctx.nontrivial(c, c);
        let got = DoubleUntil(t).grow_to(cur);
        ensure!(got == Some(want), "policy/DoubleUntil", "DoubleUntil({}).grow_to({}) = {:?}, documented size {}", t, cur, got, want);
        let got = DoubleUntilLimited::new(t, limit).grow_to(cur);
        let want_l = if want <= limit { Some(want) } else { None };
        if want_l.is_none() {
            ctx.class("limit refuses");
        }
        if want == limit {
            ctx.class("new size exactly at the limit");
        }
        ensure!(got == want_l, "policy/DoubleUntilLimited", "DoubleUntilLimited({}, {}).grow_to({}) = {:?}, documented {:?}", t, limit, cur, got, want_l);
        let got = StdPolicy.grow_to(cur);
        let want_s = doubled_or_added(cur, 1 << 23);
        ensure!(got == Some(want_s), "policy/StdPolicy", "StdPolicy.grow_to({}) = {:?}, documented {} (= DoubleUntil(8 MiB))", cur, got, want_s);
        ensure!(got == DoubleUntil(1 << 23).grow_to(cur), "policy/StdPolicy-vs-DoubleUntil", "StdPolicy differs from DoubleUntil(8 MiB) at {}", cur);
        Ok(())
    }
}

// ------------------------------------------------------------------------------------------------
// (1)-(4) readers against recording policies

#[derive(Clone, Debug, Serialize, Deserialize, Hash)]
pub struct Case {
    pub format: Format,
    pub input: B,
    pub cap: usize,
    pub policy: PolKind,
    pub script: Script,
    pub ops: Vec<Op>,
}

pub struct Growth;

fn op(with_exact: bool) -> BoxedStrategy<Op> {
    if with_exact {
        prop_oneof![
            6 => Just(Op::Next),
            1 => Just(Op::Owned),
            5 => (0u8..3).prop_map(Op::ReadSet),
            5 => (0u8..3, prop_oneof![12 => 1u8..8, 1 => 250u8..=255]).prop_map(|(s, n)| Op::ReadExact(s, n)),
            2 => gen::policy_any().prop_map(Op::SetPolicy),
            1 => any::<u16>().prop_map(Op::Seek),
        ]
        .boxed()
    } else {
        prop_oneof![
            6 => Just(Op::Next),
            1 => Just(Op::Owned),
            5 => (0u8..3).prop_map(Op::ReadSet),
            2 => gen::policy_any().prop_map(Op::SetPolicy),
            1 => any::<u16>().prop_map(Op::Seek),
        ]
        .boxed()
    }
}

/// extent of the four-line group starting at `byte`, and whether all four lines are LF-terminated
fn fq_group_extent(input: &[u8], byte: usize) -> (usize, bool) {
    let mut n = 0;
    for (i, &b) in input[byte..].iter().enumerate() {
        if b == b'\n' {
            n += 1;
            if n == 4 {
                return (i + 1, true);
            }
        }
    }
    (input.len() - byte, false)
}

/// does parsing record `j` (or the terminal group for j == #records) need a buffer larger than `cur`?
pub fn needs(m: &Model, input: &[u8], j: usize, cur: usize) -> Option<bool> {
    match m.format {
        Format::Fasta => {
            if j < m.recs.len() {
                Some(m.recs[j].extent >= cur)
            } else {
                Some(false) // blank lines / invalid start never need growth
            }
        }
        Format::Fastq => {
            let byte = if j < m.recs.len() {
                m.recs[j].byte
            } else if j == m.recs.len() {
                m.term_byte
            } else {
                return None;
            };
            if byte >= input.len() {
                return Some(false);
            }
            let (e, terminated) = fq_group_extent(input, byte);
            Some(if terminated { e > cur } else { e >= cur })
        }
    }
}

fn all_events(t: &Trace) -> Vec<PolEvent> {
    let mut v: Vec<PolEvent> = t.pol_logs.iter().flat_map(|l| l.borrow().clone()).collect();
    v.sort_by_key(|e| e.seq);
    v
}

fn step_result_is_limit(ev: &Ev) -> bool {
    match ev {
        Ev::Rec(o) | Ev::OwnedRec(o) => *o == Out::Err(NErr::BufferLimit),
        Ev::Set { res, .. } => *res == SetOut::Err(NErr::BufferLimit),
        _ => false,
    }
}

impl Prop for Growth {
    type Case = Case;
    fn input_bytes<'a>(&self, c: &'a mut Self::Case) -> Option<&'a mut Vec<u8>> {
        Some(&mut c.input.0)
    }
    fn strategy(&self, _tier: Tier) -> BoxedStrategy<Case> {
        let per = |f: Format| {
            let input = match f {
                Format::Fasta => prop_oneof![10 => gen::fasta_doc_with(8, 6), 4 => gen::fasta_doc_with(40, 3), 2 => gen::byte_soup(f), 2 => gen::long_read_doc(f), 1 => gen::big_input(f)].boxed(),
                Format::Fastq => prop_oneof![8 => gen::fastq_valid_doc(8), 4 => gen::fastq_valid_doc(40), 4 => gen::fastq_doc_with(8, false), 2 => gen::byte_soup(f), 2 => gen::long_read_doc(f), 1 => gen::big_input(f)].boxed(),
            };
            (gen::input_and_cap(f, input), prop_oneof![6 => gen::policy_any(), 1 => gen::policy_big_steps()], gen::script(), any::<bool>())
                .prop_flat_map(move |((input, cap), policy, script, with_exact)| {
                    (Just((input, cap, policy, script)), vec(op(with_exact), 1..24))
                })
                .prop_map(move |((input, cap, policy, script), mut ops)| {
                    // 1 history in 8 starts with a seek on the fresh reader (before anything was read)
                    if ops.len() >= 2 {
                        if let Op::Seek(t) = ops[ops.len() - 1].clone() {
                            ops.insert(0, Op::Seek(t));
                        }
                    }
                    Case { format: f, input, cap, policy, script, ops }
                })
        };
        boxed(prop_oneof![per(Format::Fasta), per(Format::Fastq)])
    }

    fn check(&self, c: &Case, ctx: &mut Ctx) -> CheckResult {
        let f = fmt_name(c.format);
        let m = Model::build(c.format, &c.input);
        if m.term == Terminal::Unspecified {
            ctx.class("skipped: out-of-domain FASTQ group");
            return Ok(());
        }
        let spec = RunSpec { input: &c.input, cap: c.cap, policy: c.policy, script: &c.script, ops: &c.ops, model: &m };
        let t = run_ops_fmt(c.format, &spec);
        livelock_check(f, &t)?;
        let events = all_events(&t);
        let has_exact = c.ops.iter().any(|o| matches!(o, Op::ReadExact(..)));
        // Histories without exact-count reads are followed THROUGH refusals: a refused call gathers nothing, so the
        // cursor stays where it is and a later (possibly more permissive, see SetPolicy) policy must let the stream
        // continue undisturbed. With exact-count reads a refusal may discard a partly gathered batch; those histories
        // are checked up to the first refusal only (what follows is C06's subject).
        let first_limit = if has_exact { t.steps.iter().position(|s| step_result_is_limit(&s.ev)) } else { None };
        // (3) BufferLimit iff the policy refused during that call
        for (si, s) in t.steps.iter().enumerate() {
            let refused = events.iter().any(|e| e.op == si && e.answer.is_none());
            let limit = step_result_is_limit(&s.ev);
            ensure!(
                refused == limit,
                format!("{}/buffer-limit-{}", f, if limit { "without-refusal" } else { "refusal-ignored" }),
                "step {} ({:?}): policy refused during this call: {}, call returned {:?}",
                si,
                s.op,
                refused,
                s.ev
            );
            if first_limit == Some(si) {
                break; // what happens after an error is C06's subject
            }
        }
        // events up to (and including) the first refusal are checked; later ones belong to post-error behaviour
        let cut = first_limit.unwrap_or(usize::MAX);
        let events: Vec<PolEvent> = events.into_iter().filter(|e| e.op <= cut).collect();
        // (1) chain
        let mut adopted = c.cap;
        let calls = t.src.borrow().calls.clone();
        for (i, e) in events.iter().enumerate() {
            ensure!(
                e.current == adopted,
                format!("{}/grow_to-argument-is-not-the-current-capacity", f),
                "growth request {} (during step {}): grow_to({}) but the capacity adopted last is {} (initial {})",
                i,
                e.op,
                e.current,
                adopted,
                c.cap
            );
            if let Some(a) = e.answer {
                adopted = a;
            }
        }
        // no read request is longer than the size adopted at that time
        {
            let mut adopted = c.cap;
            let mut ei = 0;
            for (si, s) in t.steps.iter().enumerate() {
                if si > cut {
                    break;
                }
                // all growth of this step is allowed to have happened before its reads (one-sided bound)
                while ei < events.len() && events[ei].op <= si {
                    if let Some(a) = events[ei].answer {
                        adopted = a;
                    }
                    ei += 1;
                }
                let from = if si == 0 { 0 } else { t.steps[si - 1].calls_after };
                for call in &calls[from..s.calls_after] {
                    if call.kind == CallKind::Read {
                        ensure!(
                            call.arg as usize <= adopted,
                            format!("{}/read-request-larger-than-adopted-size", f),
                            "step {} ({:?}): the reader asked the source for {} bytes, but the buffer size adopted last is {}",
                            si,
                            s.op,
                            call.arg,
                            adopted
                        );
                    }
                }
            }
        }
        // (4) a replaced policy is never asked again
        for (li, log) in t.pol_logs.iter().enumerate() {
            let from = t.pol_installed_at[li];
            let until = t.pol_installed_at.get(li + 1).copied().unwrap_or(usize::MAX);
            for e in log.borrow().iter() {
                ensure!(
                    e.op >= from && e.op < until,
                    format!("{}/replaced-policy-asked", f),
                    "policy {} was installed at step {} and replaced at step {}, but was asked during step {}",
                    li,
                    from,
                    until,
                    e.op
                );
            }
        }
        // (2) only when needed (histories without exact-count reads)
        if !has_exact {
            for (i, e) in events.iter().enumerate() {
                match needs(&m, &c.input, e.delivered, e.current) {
                    Some(true) => {}
                    Some(false) => fail!(
                        format!("{}/unnecessary-growth", f),
                        "growth request {} (step {}): grow_to({}) while parsing record {} whose extent fits the current buffer (records delivered so far: {})",
                        i,
                        e.op,
                        e.current,
                        e.delivered,
                        e.delivered
                    ),
                    None => {}
                }
            }
            ctx.class("history without exact reads (only-when-needed clause applies)");
        }
        // records parse normally: strict cursor model (through refusals without exact reads, else on the prefix)
        if has_exact {
            let prefix = Trace {
                steps: t.steps[..first_limit.unwrap_or(t.steps.len())].to_vec(),
                src: t.src.clone(),
                pol_logs: t.pol_logs.clone(),
                pol_installed_at: t.pol_installed_at.clone(),
                slot_caps: t.slot_caps.clone(),
            };
            check_strict(&m, &prefix, false)?;
        } else {
            let st = check_strict_opt(&m, &t, false, true)?;
            if st.buffer_limits > 0 && st.records_checked > 0 {
                ctx.class("stream followed through a refusal");
            }
        }
        let any_limit = t.steps.iter().any(|s| step_result_is_limit(&s.ev));
        // classification
        if !events.is_empty() {
            ctx.class("at least one growth request");
            ctx.class(&format!("policy asked: {}", match c.policy {
                PolKind::Std => "Std",
                PolKind::DoubleUntil(_) => "DoubleUntil",
                PolKind::DoubleUntilLimited(..) => "DoubleUntilLimited",
                PolKind::Add(_) => "Add(k)",
                PolKind::RefuseAbove(_) => "RefuseAbove",
                PolKind::RefuseAlways => "RefuseAlways",
            }));
        }
        if events.len() >= 3 {
            ctx.class("multi-step growth (>= 3 requests)");
        }
        if any_limit {
            ctx.class("BufferLimit returned");
        }
        if any_limit && !has_exact && t.steps.iter().enumerate().any(|(i, s)| matches!(s.ev, Ev::Policy) && t.steps[..i].iter().any(|p| step_result_is_limit(&p.ev))) {
            ctx.class("policy replaced after a refusal");
        }
        if t.pol_logs.len() > 1 && t.pol_logs[1..].iter().any(|l| !l.borrow().is_empty()) {
            ctx.class("a policy installed mid-stream was asked");
        }
        let refills = calls.len();
        if !events.is_empty() || (refills > 20 && t.pol_logs.len() == 1) {
            ctx.nontrivial(c, c);
        }
        Ok(())
    }
}

// ------------------------------------------------------------------------------------------------
// long streams of fitting records never grow

#[derive(Clone, Debug, Serialize, Deserialize, Hash)]
pub struct LongCase {
    pub format: Format,
    pub n_records: u16,
    pub seq_len: u8,
    pub jitter: u8,
    pub crlf: bool,
    /// capacity = largest record extent + 1 + slack
    pub slack: u8,
    pub chunks: Vec<u16>,
    pub sets: bool,
    /// added to seq_len (0 or 200..3000): capacities in the hundreds / thousands
    #[serde(default)]
    pub big: u16,
    /// > 0: every k-th record is tiny (0..2 bases), so that long records start a few bytes into the buffer
    #[serde(default)]
    pub tiny_every: u8,
    /// FASTA: blank lines in front of the first record
    #[serde(default)]
    pub lead_blank: u8,
}

pub struct LongStreams;

/// `long_doc` with tiny records mixed in and leading blank lines
pub fn long_doc_mixed(format: Format, n: usize, seq_len: usize, jitter: usize, crlf: bool, tiny_every: usize, lead_blank: usize, width: usize) -> Vec<u8> {
    let t: &[u8] = if crlf { b"\r\n" } else { b"\n" };
    let mut v = Vec::new();
    if format == Format::Fasta {
        for _ in 0..lead_blank {
            v.extend_from_slice(t);
        }
    }
    for i in 0..n {
        let l = if tiny_every > 0 && i % tiny_every == tiny_every - 1 { i % 3 } else { seq_len + if jitter > 0 { (i * 7) % (jitter + 1) } else { 0 } };
        let one = long_doc_rec(format, i, l, t, width.max(1));
        v.extend_from_slice(&one);
    }
    v
}

fn long_doc_rec(format: Format, i: usize, l: usize, t: &[u8], width: usize) -> Vec<u8> {
    let mut v = Vec::new();
    let id = format!("r{}", i);
    match format {
        Format::Fasta => {
            v.push(b'>');
            v.extend_from_slice(id.as_bytes());
            v.extend_from_slice(t);
            let seq: Vec<u8> = (0..l).map(|k| b"ACGT"[(i + k) % 4]).collect();
            for line in seq.chunks(width) {
                v.extend_from_slice(line);
                v.extend_from_slice(t);
            }
        }
        Format::Fastq => {
            v.push(b'@');
            v.extend_from_slice(id.as_bytes());
            v.extend_from_slice(t);
            v.extend((0..l).map(|k| b"ACGT"[(i + k) % 4]));
            v.extend_from_slice(t);
            v.push(b'+');
            v.extend_from_slice(t);
            v.extend(std::iter::repeat(b'I').take(l));
            v.extend_from_slice(t);
        }
    }
    v
}

pub fn long_doc(format: Format, n: usize, seq_len: usize, jitter: usize, crlf: bool) -> Vec<u8> {
    let t: &[u8] = if crlf { b"\r\n" } else { b"\n" };
    let mut v = Vec::new();
    for i in 0..n {
        let l = seq_len + if jitter > 0 { (i * 7) % (jitter + 1) } else { 0 };
        let id = format!("r{}", i);
        match format {
            Format::Fasta => {
                v.push(b'>');
                v.extend_from_slice(id.as_bytes());
                v.extend_from_slice(t);
                let seq: Vec<u8> = (0..l).map(|k| b"ACGT"[(i + k) % 4]).collect();
                for line in seq.chunks(7) {
                    v.extend_from_slice(line);
                    v.extend_from_slice(t);
                }
            }
            Format::Fastq => {
                v.push(b'@');
                v.extend_from_slice(id.as_bytes());
                v.extend_from_slice(t);
                v.extend((0..l).map(|k| b"ACGT"[(i + k) % 4]));
                v.extend_from_slice(t);
                v.push(b'+');
                v.extend_from_slice(t);
                v.extend(std::iter::repeat(b'I').take(l));
                v.extend_from_slice(t);
            }
        }
    }
    v
}

impl Prop for LongStreams {
    type Case = LongCase;
    fn strategy(&self, _tier: Tier) -> BoxedStrategy<LongCase> {
        boxed(
            (gen::format(), 200u16..3000, 0u8..30, 0u8..6, any::<bool>(), 0u8..40, gen::chunks(), any::<bool>(), (prop_oneof![2 => Just(0u16), 1 => 200u16..600, 1 => 600u16..3000], prop_oneof![2 => Just(0u8), 1 => 2u8..6], 0u8..3)).prop_map(
                |(format, n_records, seq_len, jitter, crlf, slack, chunks, sets, (big, tiny_every, lead_blank))| LongCase { format, n_records, seq_len, jitter, crlf, slack, chunks, sets, big, tiny_every, lead_blank },
            ),
        )
    }
    fn check(&self, c: &LongCase, ctx: &mut Ctx) -> CheckResult {
        let f = fmt_name(c.format);
        let mixed = c.big > 0 || c.tiny_every > 0 || c.lead_blank > 0;
        let seq_len = c.seq_len as usize + c.big as usize;
        // about 300 kB at most
        let n_records = if c.big > 0 { (c.n_records as usize).min(300_000 / (2 * seq_len + 10)).max(8) } else { c.n_records as usize };
        let input = if mixed {
            long_doc_mixed(c.format, n_records, seq_len, c.jitter as usize, c.crlf, c.tiny_every as usize, c.lead_blank as usize, 61)
        } else {
            long_doc(c.format, n_records, seq_len, c.jitter as usize, c.crlf)
        };
        let m = Model::build(c.format, &input);
        ensure!(m.recs.len() == n_records && m.term == Terminal::End, "harness/long-doc", "harness: long document does not model as {} records", n_records);
        if c.big > 0 {
            ctx.class("capacity in the hundreds / thousands (long records)");
        }
        if c.tiny_every > 0 {
            ctx.class("tiny records between the long ones");
        }
        if c.lead_blank > 0 && c.format == Format::Fasta {
            ctx.class("blank lines in front of the first record");
        }
        let max_e = m.recs.iter().map(|r| r.extent).max().unwrap_or(0);
        let cap = (max_e + 1 + c.slack as usize).max(3);
        let script = Script { chunks: c.chunks.clone(), ..Default::default() };
        let r = read_all(c.format, &input, cap, PolKind::Add(1), &script, if c.sets { Mode::Sets } else { Mode::Next }, m.recs.len() + 6);
        crate::light::compare(&m, &r.outs, false)?;
        let asked = r.pol.borrow().len();
        ctx.class(if c.sets { "record sets" } else { "next()" });
        if input.len() > 50 * cap {
            ctx.class("input longer than 50 buffer capacities");
        }
        ctx.nontrivial(c, c);
        ensure!(
            asked == 0,
            format!("{}/growth-although-every-record-fits", f),
            "{} records, largest extent {}, capacity {}: the policy was asked {} time(s): {:?}",
            n_records,
            max_e,
            cap,
            asked,
            r.pol.borrow().iter().take(3).collect::<Vec<_>>()
        );
        Ok(())
    }
}

// ------------------------------------------------------------------------------------------------
// readers opened with from_path(): the buffer they start with does not depend on the file, growth only through the
// policy installed afterwards

#[derive(Clone, Debug, Serialize, Deserialize, Hash)]
pub struct PathCase {
    pub format: Format,
    pub input: B,
    pub sets: bool,
    /// the second file holds the document this many times (>= 2)
    #[serde(default)]
    pub rep: u8,
}

pub struct FromPath;

type PathRun = (Vec<crate::driver::Out>, Vec<PolEvent>, usize);

/// Reads `bytes` through a temporary file, `from_path()` and a recording StdPolicy: (outputs, policy requests, largest
/// record-set buffer capacity seen).
fn read_from_path(format: Format, bytes: &[u8], sets: bool) -> Result<PathRun, crate::engine::Failure> {
    use crate::driver::{fa_err, fa_norm, fq_err, fq_norm, Out};
    use crate::policy::{RecPolicy, Shared};
    use seq_io::{fasta, fastq};
    let f = fmt_name(format);
    let path = std::env::temp_dir().join(format!("seqio_verif_c09_{}_{:?}", std::process::id(), std::thread::current().id()).replace(|ch: char| !ch.is_ascii_alphanumeric() && ch != '_', "_"));
    let _cleanup = crate::util::TempPath(path.clone());
    if let Err(e) = std::fs::write(&path, bytes) {
        fail!("harness/tempfile", "cannot write {}: {}", path.display(), e);
    }
    let shared = std::rc::Rc::new(Shared::default());
    shared.input_len.set(bytes.len().max(1));
    let (pol, log) = RecPolicy::new(PolKind::Std, shared.clone());
    let mut outs: Vec<Out> = Vec::new();
    let mut max_set_cap = 0usize;
    macro_rules! go {
        ($m:ident, $norm:ident, $err:ident) => {{
            let rdr = match $m::Reader::from_path(&path) {
                Ok(r) => r,
                Err(e) => fail!(format!("{}/from_path/open-failed", f), "from_path failed: {}", e),
            };
            let mut rdr = rdr.set_policy(pol);
            if sets {
                let mut set = $m::RecordSet::default();
                loop {
                    match rdr.read_record_set(&mut set) {
                        None => break,
                        Some(Err(e)) => {
                            outs.push(Out::Err($err(&e)));
                            break;
                        }
                        Some(Ok(())) => {
                            max_set_cap = max_set_cap.max(set.buf_capacity());
                            for r in &set {
                                shared.delivered.set(shared.delivered.get() + 1);
                                outs.push(Out::Rec($norm(&r)));
                            }
                        }
                    }
                }
            } else {
                loop {
                    match rdr.next() {
                        None => break,
                        Some(Err(e)) => {
                            outs.push(Out::Err($err(&e)));
                            break;
                        }
                        Some(Ok(r)) => {
                            shared.delivered.set(shared.delivered.get() + 1);
                            outs.push(Out::Rec($norm(&r)));
                        }
                    }
                }
            }
        }};
    }
    match format {
        Format::Fasta => go!(fasta, fa_norm, fa_err),
        Format::Fastq => go!(fastq, fq_norm, fq_err),
    }
    let _ = std::fs::remove_file(&path);
    outs.push(Out::End);
    outs.push(Out::End);
    outs.push(Out::End);
    let events = log.borrow().clone();
    Ok((outs, events, max_set_cap))
}

impl Prop for FromPath {
    type Case = PathCase;
    fn input_bytes<'a>(&self, c: &'a mut Self::Case) -> Option<&'a mut Vec<u8>> {
        Some(&mut c.input.0)
    }
    fn strategy(&self, _tier: Tier) -> BoxedStrategy<PathCase> {
        let per = |f: Format| {
            let input = match f {
                Format::Fasta => prop_oneof![3 => gen::fasta_doc_with(4, 3), 2 => gen::long_read_doc(f), 3 => gen::big_input(f)].boxed(),
                Format::Fastq => prop_oneof![3 => gen::fastq_valid_doc(4), 2 => gen::long_read_doc(f), 3 => gen::big_input(f)].boxed(),
            };
            (input, 2u8..6, any::<bool>()).prop_map(move |(input, rep, sets)| PathCase { format: f, input, sets, rep })
        };
        boxed(prop_oneof![per(Format::Fasta), per(Format::Fastq)])
    }
    fn check(&self, c: &PathCase, ctx: &mut Ctx) -> CheckResult {
        let f = fmt_name(c.format);
        let m = Model::build(c.format, &c.input);
        if m.term == Terminal::Unspecified {
            ctx.class("skipped: out-of-domain FASTQ group");
            return Ok(());
        }
        ctx.nontrivial(c, c);
        if c.input.len() > (1 << 17) {
            ctx.class("file larger than two default buffers");
        }
        if c.input.len() < (1 << 16) {
            ctx.class("file smaller than the default buffer");
        }
        let (outs, events, set_cap) = read_from_path(c.format, &c.input, c.sets)?;
        crate::light::compare(&m, &outs, false)?;
        // every request is justified by the group being parsed (a record, or the invalid / truncated group the input
        // ends with) not fitting the buffer as it is then
        for e in &events {
            ensure!(
                needs(&m, &c.input, e.delivered, e.current) != Some(false),
                format!("{}/from_path/unnecessary-growth", f),
                "grow_to({}) while parsing group {}, which fits the current buffer",
                e.current,
                e.delivered
            );
        }
        if !events.is_empty() {
            ctx.class("a group larger than the initial buffer");
        }
        // the same document several times in one file (only if it ends with a line terminator and without an error):
        // the reader meets the same records, so it asks the policy the same questions and fills record sets of the
        // same size - unless the buffer it starts with depends on the file length
        if c.input.last() == Some(&b'\n') && m.term == Terminal::End && !m.recs.is_empty() {
            let rep = (c.rep as usize).clamp(2, 5);
            let big = c.input.0.repeat(rep);
            // (a last line that is empty and unterminated glues the copies together: only documents that the model
            // reads as rep x the same records are compared)
            let m2 = Model::build(c.format, &big);
            if m2.term != Terminal::End || m2.recs.len() != rep * m.recs.len() {
                ctx.class("repetition skipped: the copies do not stay separate records");
                return Ok(());
            }
            let (outs2, events2, set_cap2) = read_from_path(c.format, &big, c.sets)?;
            crate::light::compare(&m2, &outs2, false)?;
            let n_recs = outs.iter().filter(|o| matches!(o, crate::driver::Out::Rec(_))).count();
            ensure!(outs2.iter().filter(|o| matches!(o, crate::driver::Out::Rec(_))).count() == rep * n_recs, format!("{}/from_path/repeated-file-record-count", f), "the file holding the document {} times does not deliver {} x {} records", rep, rep, n_recs);
            let key = |v: &[PolEvent]| -> Vec<(usize, usize, Option<usize>)> { v.iter().map(|e| (e.delivered, e.current, e.answer)).collect() };
            ensure!(
                key(&events) == key(&events2),
                format!("{}/from_path/requests-depend-on-file-length", f),
                "file of {} bytes: policy requests (records delivered, current, answer) {:?}; the same document {} times ({} bytes): {:?}",
                c.input.len(),
                key(&events),
                rep,
                big.len(),
                key(&events2)
            );
            ctx.class("compared with the same document repeated in one file");
            if c.sets && c.input.len() > (1 << 17) && events.is_empty() {
                // both files exceed two default buffers and nothing had to grow: the sets are copies of full buffers
                ensure!(
                    set_cap == set_cap2,
                    format!("{}/from_path/buffer-depends-on-file-length", f),
                    "record sets filled by a from_path() reader: largest buffer {} bytes for the file of {} bytes, {} bytes for the file of {} bytes",
                    set_cap,
                    c.input.len(),
                    set_cap2,
                    big.len()
                );
                ctx.class("record-set buffer sizes compared between the two files");
            }
        }
        Ok(())
    }
}

pub const RULE: &str = "sub-check reader-vs-recording-policy: (format, document with record extents aimed at the capacity (+-3) or soup, 1 in 7: documents with records of 100..3000 bytes and tiny records in between, capacity up to 4096, any policy kind incl. refusing and Add(k), 1 in 7: policies with steps of thousands of bytes (Add(1000..20000), DoubleUntil / DoubleUntilLimited / RefuseAbove in the thousands), chunk script, history of next / records() / read_record_set / [read_record_set_exact] / set_policy / seek to a record (also as the very first call on a fresh reader)) -> (1) every grow_to argument equals the capacity adopted last (initial capacity first) and no source read asks for more bytes than the adopted size; (2) histories without exact reads: every request is justified by the extent of the record being parsed (FASTA: extent >= capacity; FASTQ: > for four terminated lines, >= for a group running to end of input); (3) a call returns BufferLimit iff the policy refused during that call; without exact reads the strict cursor model is followed THROUGH refusals (a refused call leaves the cursor where it is, so a policy installed afterwards lets the stream continue undisturbed), with exact reads up to the first refusal; (4) a replaced policy is never asked again. Sub-check long-streams: 200..3000 small records, or 8..700 records of 200..3000 bases with tiny records mixed in and (FASTA) leading blank lines, capacity = largest extent + 1 + slack (so up to several thousand bytes): the outcome equals the model and the policy is never asked. Sub-check from-path: documents of a few bytes up to ~250 kB written to a temporary file, opened with Reader::from_path() and given a recording StdPolicy: outcome = model and every growth request is justified by the group being parsed; metamorphic part: a second file holding the same document 2..5 times must produce exactly the same policy requests (and, for files larger than two default buffers, record sets with the same buffer size) - the buffer from_path() starts with does not depend on the file. Sub-check policy-arithmetic: StdPolicy / DoubleUntil / DoubleUntilLimited against the documented formulas for sizes around the thresholds and up to 2^40. Non-trivial = >= 1 growth request or > 20 source reads without growth (reader), every case (others). Distinct = hash(case).";

pub fn run(tier: Tier) -> i32 {
    let mut run = Run::new("C09", tier, "exploration");
    let a = Arithmetic;
    run.replays("policy-arithmetic", &a);
    run.generated("policy-arithmetic", &a, tier.pick(100_000, 2_000_000));
    let p = Growth;
    run.replays("reader-vs-recording-policy", &p);
    run.generated("reader-vs-recording-policy", &p, tier.pick(160_000, 3_000_000));
    let l = LongStreams;
    run.replays("long-streams", &l);
    run.generated("long-streams", &l, tier.pick(1_000, 10_000));
    let fp = FromPath;
    run.replays("from-path", &fp);
    run.generated("from-path", &fp, tier.pick(4_000, 60_000));
    run.finish(
        RULE,
        &[
            "one byte of slack in clause 2: the parser needs one byte of look-ahead (FASTA) or a short buffer as end-of-input evidence to know a record is complete",
            "the equality 'next request asks for exactly new - cur bytes' is an implementation detail and not asserted",
            "policies that return a size <= current violate the BufPolicy contract and are never generated",
        ],
    )
}

pub fn replay(run: &mut Run, file: &std::path::Path) -> Option<bool> {
    run.replay_file("policy-arithmetic", &Arithmetic, file, true)
        .or_else(|| run.replay_file("reader-vs-recording-policy", &Growth, file, true))
        .or_else(|| run.replay_file("long-streams", &LongStreams, file, true))
        .or_else(|| run.replay_file("from-path", &FromPath, file, true))
}
