//! C11 — FASTQ writing round-trips; unchanged writing reproduces the input bytes. (DESIGN.md §4 C11)

use crate::engine::{boxed, CheckResult, Ctx, Prop, Run, Tier};
use crate::gen;
use crate::model::{Format, Model, Terminal};
use crate::util::B;
use crate::{ensure, fail};
use proptest::collection::vec;
use proptest::prelude::*;
use seq_io::{fasta, fastq};
use serde_derive::{Deserialize, Serialize};

// ------------------------------------------------------------------------------------------------
// sub-check 1: field round trip

#[derive(Clone, Debug, Serialize, Deserialize, Hash)]
pub struct QRec {
    pub id: B,
    pub desc: Option<B>,
    pub seq: B,
    pub qual: B,
    pub entry: u8,
    /// Some(k): before this record is written, the same call is made on a writer that fails after k bytes
    #[serde(default)]
    pub pre_fail: Option<u16>,
}

fn write_q<W: std::io::Write>(out: &mut W, r: &QRec) -> Result<std::io::Result<()>, crate::engine::Failure> {
    use fastq::Record;
    let head = full_head(r);
    Ok(match r.entry % 4 {
        0 => fastq::write_to(&mut *out, &head, &r.seq, &r.qual),
        1 => fastq::write_parts(&mut *out, &r.id, r.desc.as_ref().map(|d| &d.0[..]), &r.seq, &r.qual),
        2 => fastq::OwnedRecord { head: head.clone(), seq: r.seq.0.clone(), qual: r.qual.0.clone() }.write(&mut *out),
        _ => {
            // RefRecord from parsing a CRLF rendering of the same record
            let mut text = vec![b'@'];
            text.extend_from_slice(&head);
            text.extend_from_slice(b"\r\n");
            text.extend_from_slice(&r.seq);
            text.extend_from_slice(b"\r\n+\r\n");
            text.extend_from_slice(&r.qual);
            text.extend_from_slice(b"\r\n");
            let mut rdr = fastq::Reader::new(&text[..]);
            let res = match rdr.next() {
                Some(Ok(rec)) => rec.write(&mut *out),
                _ => fail!("fastq-write/setup", "cannot parse the source rendering {:?}", B(text.clone())),
            };
            res
        }
    })
}

#[derive(Clone, Debug, Serialize, Deserialize, Hash)]
pub struct WCase {
    pub recs: Vec<QRec>,
    pub cap: usize,
    /// the io::Write used: see c10::Sink ((0,_) Vec, (1,n) at most n bytes per write, (2,n) never across n-byte blocks)
    #[serde(default)]
    pub sink: (u8, u16),
}

pub const ENTRIES: [&str; 4] = ["write_to", "write_parts", "OwnedRecord::write", "RefRecord::write"];

fn full_head(r: &QRec) -> Vec<u8> {
    let mut h = r.id.0.clone();
    if let Some(d) = &r.desc {
        h.push(b' ');
        h.extend_from_slice(d);
    }
    h
}

pub struct FastqWrite;

impl Prop for FastqWrite {
    type Case = WCase;
    fn strategy(&self, _tier: Tier) -> BoxedStrategy<WCase> {
        let part = |space: bool| {
            let alpha: &'static [u8] = if space { b"abcXYZ019_>@;+ \r\x80\xff" } else { b"abcXYZ019_>@;+\r\x80\xff" };
            vec(prop::sample::select(alpha), 0..10).prop_map(B)
        };
        let pre_fail = prop_oneof![6 => Just(None), 1 => (0u16..60).prop_map(Some), 1 => (60u16..9000).prop_map(Some)];
        // rarely: a header / sequence of several KiB (buffered writers switch strategy at such sizes)
        let long = prop_oneof![40 => Just((0usize, 0usize)), 1 => (0usize..2, 200usize..9000)];
        let rec = (part(false), prop::option::of(part(true)), vec(prop::sample::select(&b"ACGTN @+>;\x80"[..]), 0..40), vec(prop::sample::select(&b"!#5?IJ~@+> \xff"[..]), 40), 0u8..4, pre_fail, long).prop_map(
            |(mut id, mut desc, mut seq, mut q, entry, pre_fail, long)| {
                match long {
                    (_, 0) => {}
                    (0, n) => {
                        let pat = if seq.is_empty() { vec![b'A'] } else { seq.clone() };
                        seq = pat.iter().cycle().take(n).cloned().collect();
                        let qp = q.clone();
                        q = qp.iter().cycle().take(n).cloned().collect();
                    }
                    (_, n) => {
                        let pat = if id.is_empty() { vec![b'i'] } else { id.0.clone() };
                        id = B(pat.iter().cycle().take(n).cloned().collect());
                    }
                }
                match desc.as_mut() {
                    Some(d) => {
                        if d.last() == Some(&b'\r') {
                            *d.0.last_mut().unwrap() = b'x';
                        }
                    }
                    None => {
                        if id.last() == Some(&b'\r') {
                            *id.0.last_mut().unwrap() = b'x';
                        }
                    }
                }
                let qual = B(q[..seq.len()].to_vec());
                QRec { id, desc, seq: B(seq), qual, entry, pre_fail }
            },
        );
        let sink = prop_oneof![3 => Just((0u8, 0u16)), 2 => (Just(1u8), prop_oneof![1u16..8, 8u16..200]), 1 => (Just(2u8), prop_oneof![1u16..8, 8u16..200, Just(4096u16)]), 1 => (Just(3u8), 0u16..5)];
        boxed((vec(rec, 1..6), prop_oneof![3 => 3usize..40, 1 => 40usize..400], sink).prop_map(|(recs, cap, sink)| WCase { recs, cap, sink }))
    }

    fn check(&self, c: &WCase, ctx: &mut Ctx) -> CheckResult {
        use fastq::Record;
        let mut out = super::c10::Sink::new(c.sink);
        for r in &c.recs {
            ctx.class(&format!("entry: {}", ENTRIES[(r.entry % 4) as usize]));
            if let Some(k) = r.pre_fail {
                let mut f = super::c10::FailSink { left: k as usize, failed: false };
                let _ = write_q(&mut f, r)?;
                if f.failed {
                    ctx.class("a write that failed with an I/O error precedes the write");
                }
            }
            let res = write_q(&mut out, r)?;
            ensure!(res.is_ok(), "fastq-write/io-error", "writing to a Vec failed");
        }
        if c.recs.len() >= 2 || c.recs.iter().any(|r| r.seq.is_empty() || r.desc.is_some()) {
            ctx.nontrivial(c, c);
        }
        if out.short_writes > 0 {
            ctx.class("writer accepted only part of a buffer (short writes)");
        }
        let out = out.data;
        let mut rdr = fastq::Reader::with_capacity(&out[..], c.cap);
        let mut i = 0;
        loop {
            match rdr.next() {
                None => break,
                Some(Err(e)) => fail!("fastq-write/output-does-not-parse", "the written text does not parse: {}\n  output: {:?}", e, B(out.clone())),
                Some(Ok(p)) => {
                    ensure!(i < c.recs.len(), "fastq-write/extra-record", "more records parsed than written\n  output: {:?}", B(out.clone()));
                    let r = &c.recs[i];
                    let name = ENTRIES[(r.entry % 4) as usize];
                    let head = full_head(r);
                    ensure!(p.head() == &head[..], format!("fastq-write/{}/header", name), "record {}: wrote header {:?}, parsed {:?}", i, B(head.clone()), B::new(p.head()));
                    ensure!(p.seq() == &r.seq[..], format!("fastq-write/{}/sequence", name), "record {}: wrote sequence {:?}, parsed {:?}", i, r.seq, B::new(p.seq()));
                    ensure!(p.qual() == &r.qual[..], format!("fastq-write/{}/quality", name), "record {}: wrote quality {:?}, parsed {:?}", i, r.qual, B::new(p.qual()));
                    ensure!(
                        p.id_bytes() == &r.id[..] && p.desc_bytes() == r.desc.as_ref().map(|d| &d.0[..]),
                        format!("fastq-write/{}/id-desc-parts", name),
                        "record {}: id/desc parts do not come back",
                        i
                    );
                    i += 1;
                }
            }
        }
        ensure!(i == c.recs.len(), "fastq-write/record-count", "{} records written, {} parsed back\n  output: {:?}", c.recs.len(), i, B(out.clone()));
        Ok(())
    }
}

// ------------------------------------------------------------------------------------------------
// sub-check 2: write_unchanged

#[derive(Clone, Debug, Serialize, Deserialize, Hash)]
pub struct UCase {
    pub format: Format,
    pub input: B,
    pub cap: usize,
    pub chunks: Vec<u16>,
    pub via_sets: bool,
    #[serde(default)]
    pub sink: (u8, u16),
    /// via_sets: (number of record sets used in rotation - 1, n of read_record_set_exact or 0 = read_record_set);
    /// with >= 2 sets the records of a set are written only after the next set has been read;
    /// third component: what is done to a set before its records are written: 0 nothing, 1 shrink_buffer_to_fit(),
    /// 2 the records are taken from a recycled copy filled through clone_from(), 3 both
    #[serde(default)]
    pub set_plan: (u8, u8, u8),
}

pub struct Unchanged;

/// Reads everything through `k` record sets used in rotation and calls `emit` for every record; with k >= 2 the
/// records of a set are emitted one read later (sets must stay valid while the reader moves on).
macro_rules! drain_sets {
    ($rdr:expr, $set_ty:ty, $plan:expr, $sig:expr, $emit:expr) => {{
        let k = ($plan.0 as usize % 3) + 1;
        let n = $plan.1 as usize;
        let mut sets: Vec<$set_ty> = (0..k).map(|_| <$set_ty>::default()).collect();
        #[allow(unused_mut, unused_variables)]
        let mut recycled = <$set_ty>::default();
        let mut pending: Option<usize> = None;
        let mut i = 0;
        loop {
            let cur = i % k;
            let r = if n == 0 { $rdr.read_record_set(&mut sets[cur]) } else { $rdr.read_record_set_exact(&mut sets[cur], Some(n)) };
            let r = match r {
                None => break,
                Some(r) => r,
            };
            ensure!(r.is_ok(), $sig, "well-formed input gave {:?}", r.err().map(|e| e.to_string()));
            if $plan.2 % 4 == 1 || $plan.2 % 4 == 3 {
                sets[cur].shrink_buffer_to_fit();
            }
            if k == 1 {
                if $plan.2 % 4 >= 2 {
                    recycled.clone_from(&sets[cur]);
                    for rec in &recycled {
                        $emit(rec);
                    }
                } else {
                    for rec in &sets[cur] {
                        $emit(rec);
                    }
                }
            } else {
                if let Some(p) = pending {
                    for rec in &sets[p] {
                        $emit(rec);
                    }
                }
                pending = Some(cur);
            }
            i += 1;
        }
        if let Some(p) = pending {
            for rec in &sets[p] {
                $emit(rec);
            }
        }
    }};
}

fn strip_eol(mut b: &[u8]) -> &[u8] {
    while let Some((&l, rest)) = b.split_last() {
        if l == b'\n' || l == b'\r' {
            b = rest;
        } else {
            break;
        }
    }
    b
}

impl Prop for Unchanged {
    type Case = UCase;
    fn input_bytes<'a>(&self, c: &'a mut Self::Case) -> Option<&'a mut Vec<u8>> {
        Some(&mut c.input.0)
    }
    fn strategy(&self, _tier: Tier) -> BoxedStrategy<UCase> {
        let per = |f: Format| {
            let input = match f {
                Format::Fasta => gen::fasta_doc_with(6, 6),
                Format::Fastq => gen::fastq_valid_doc(6),
            };
            let sink = prop_oneof![3 => Just((0u8, 0u16)), 1 => (Just(1u8), 1u16..40), 1 => (Just(2u8), 1u16..40), 1 => (Just(3u8), 0u16..5)];
            let plan = (0u8..3, prop_oneof![2 => Just(0u8), 2 => 1u8..3, 1 => 3u8..8], prop_oneof![2 => Just(0u8), 1 => 1u8..4]);
            (gen::input_and_cap(f, input), gen::chunks(), any::<bool>(), sink, plan).prop_map(move |((input, cap), chunks, via_sets, sink, set_plan)| UCase { format: f, input, cap, chunks, via_sets, sink, set_plan })
        };
        boxed(prop_oneof![per(Format::Fasta), per(Format::Fastq)])
    }

    fn check(&self, c: &UCase, ctx: &mut Ctx) -> CheckResult {
        let m = Model::build(c.format, &c.input);
        // well-formed inputs only: the model must end with End (the generators make it so, but e.g. a
        // FASTQ header containing CR at its end is still well-formed; anything else is skipped)
        if m.term != Terminal::End {
            ctx.class("skipped: input not well-formed");
            return Ok(());
        }
        if c.input.contains(&b'\r') || c.input.last() != Some(&b'\n') || m.recs.iter().any(|r| r.extent >= c.cap) {
            if !m.recs.is_empty() {
                ctx.nontrivial(c, c);
            }
        }
        if c.input.windows(2).any(|w| w == b"\r\n") {
            ctx.class("CRLF");
        }
        if !c.input.is_empty() && c.input.last() != Some(&b'\n') {
            ctx.class("no final terminator");
        }
        if c.via_sets {
            ctx.class("records taken from record sets");
            if c.set_plan.0 % 3 > 0 {
                ctx.class("records taken from 2-3 record sets used in rotation, written one read later");
            }
            if c.set_plan.1 > 0 {
                ctx.class("record sets filled with read_record_set_exact(n)");
            }
            match c.set_plan.2 % 4 {
                1 => ctx.class("records written after shrink_buffer_to_fit()"),
                2 | 3 => ctx.class("records written from a recycled clone_from() copy"),
                _ => {}
            }
        }
        let src = crate::source::ChunkedSend::new(c.input.0.clone(), c.chunks.clone());
        match c.format {
            Format::Fastq => {
                let mut outs: Vec<Vec<u8>> = Vec::new();
                let mut rdr = fastq::Reader::with_capacity(src, c.cap);
                if c.via_sets {
                    drain_sets!(rdr, fastq::RecordSet, c.set_plan, "fastq-unchanged/unexpected-error", |rec: fastq::RefRecord| {
                        let mut o = super::c10::Sink::new(c.sink);
                        rec.write_unchanged(&mut o).unwrap();
                        outs.push(o.data);
                    });
                } else {
                    while let Some(r) = rdr.next() {
                        match r {
                            Ok(rec) => {
                                let mut o = super::c10::Sink::new(c.sink);
                                rec.write_unchanged(&mut o).unwrap();
                                outs.push(o.data);
                            }
                            Err(e) => fail!("fastq-unchanged/unexpected-error", "well-formed input gave {}", e),
                        }
                    }
                }
                ensure!(outs.len() == m.recs.len(), "fastq-unchanged/record-count", "{} records expected, {} written", m.recs.len(), outs.len());
                // each record's bytes, line endings included
                let mut concat = Vec::new();
                for (i, (o, r)) in outs.iter().zip(&m.recs).enumerate() {
                    let orig = &c.input[r.byte..r.byte + r.extent];
                    let mut want = orig.to_vec();
                    if !r.terminated {
                        // the model says the fourth line is unterminated: one LF is added
                        want.push(b'\n');
                    }
                    ensure!(
                        *o == want,
                        "fastq-unchanged/bytes-differ",
                        "record {}: write_unchanged gave {:?}, original bytes (plus LF iff the last line is unterminated) {:?}",
                        i,
                        B(o.clone()),
                        B(want.clone())
                    );
                    concat.extend_from_slice(o);
                }
                // concatenation = input up to the end of the last record (+ LF if unterminated); blank tail dropped
                let end = m.recs.last().map_or(0, |r| r.byte + r.extent);
                let mut want = c.input[..end].to_vec();
                if m.recs.last().map_or(false, |r| !r.terminated) {
                    want.push(b'\n');
                }
                ensure!(concat == want, "fastq-unchanged/concat-differs", "concatenated outputs {:?} != input prefix {:?}", B(concat.clone()), B(want.clone()));
                ensure!(
                    c.input[end..].iter().all(|b| *b == b'\n' || *b == b'\r'),
                    "fastq-unchanged/tail-not-blank",
                    "harness: the dropped tail is not blank"
                );
            }
            Format::Fasta => {
                let mut outs: Vec<(Vec<u8>, fasta::OwnedRecord)> = Vec::new();
                let mut rdr = fasta::Reader::with_capacity(src, c.cap);
                if c.via_sets {
                    drain_sets!(rdr, fasta::RecordSet, c.set_plan, "fasta-unchanged/unexpected-error", |rec: fasta::RefRecord| {
                        let mut o = super::c10::Sink::new(c.sink);
                        rec.write_unchanged(&mut o).unwrap();
                        outs.push((o.data, rec.to_owned_record()));
                    });
                } else {
                    while let Some(r) = rdr.next() {
                        match r {
                            Ok(rec) => {
                                let mut o = super::c10::Sink::new(c.sink);
                                rec.write_unchanged(&mut o).unwrap();
                                outs.push((o.data, rec.to_owned_record()));
                            }
                            Err(e) => fail!("fasta-unchanged/unexpected-error", "well-formed input gave {}", e),
                        }
                    }
                }
                ensure!(outs.len() == m.recs.len(), "fasta-unchanged/record-count", "{} records expected, {} written", m.recs.len(), outs.len());
                for (i, ((o, owned), r)) in outs.iter().zip(&m.recs).enumerate() {
                    ensure!(o.last() == Some(&b'\n'), "fasta-unchanged/no-final-lf", "record {}: output {:?} does not end with LF", i, B(o.clone()));
                    let orig = &c.input[r.byte..r.byte + r.extent];
                    ensure!(
                        strip_eol(o) == strip_eol(orig),
                        "fasta-unchanged/bytes-differ",
                        "record {}: write_unchanged gave {:?}, original bytes {:?} (compared after stripping trailing CR/LF)",
                        i,
                        B(o.clone()),
                        B::new(orig)
                    );
                    // re-parses to exactly one identical record
                    let mut r2 = fasta::Reader::new(&o[..]);
                    let back: Vec<_> = r2.records().collect();
                    ensure!(
                        back.len() == 1 && back[0].as_ref().ok() == Some(owned),
                        "fasta-unchanged/reparse-differs",
                        "record {}: write_unchanged output {:?} re-parses to {:?}, original record {:?}",
                        i,
                        B(o.clone()),
                        back.iter().map(|b| b.as_ref().map(|r| (B::new(&r.head), B::new(&r.seq))).map_err(|e| e.to_string())).collect::<Vec<_>>(),
                        (B::new(&owned.head), B::new(&owned.seq))
                    );
                }
            }
        }
        Ok(())
    }
}

pub const RULE: &str = "sub-check fastq-write-roundtrip: 1..5 records (id/desc/header as for C10, equally long sequence and quality without LF/CR; 1 in 40 records has a header or a sequence+quality of 200..9000 bytes; 1 in 4 writes is preceded by the same call on a writer that fails with an I/O error after k bytes, result ignored) through write_to, write_parts, OwnedRecord::write, RefRecord::write (record parsed from a CRLF rendering), into a Vec, a writer that accepts only part of each buffer or one that is interrupted every few calls, parsed back at a generated capacity: head, seq, qual and id/desc parts come back. Sub-check write-unchanged: well-formed FASTQ/FASTA documents (LF, CRLF or per-record/per-line mixture, with/without final terminator, blank tail / blank lines) x capacity x chunk script x {next, 1..3 record sets used in rotation and filled with read_record_set or read_record_set_exact(n), the records of a set being written after the next set was read, optionally after shrink_buffer_to_fit() or from a recycled copy filled through clone_from()}: FASTQ: every record's write_unchanged output = its original bytes (+ LF iff the model says its fourth line is unterminated) and the concatenation = the input up to the end of the last record; FASTA: output ends in LF, equals the record's byte range after stripping trailing CR/LF, and re-parses to exactly one identical owned record. Non-trivial = CRLF or missing final terminator or a record straddling a refill (unchanged) / >= 2 records, empty sequence or description (round trip). Distinct = hash(case).";

pub fn run(tier: Tier) -> i32 {
    let mut run = Run::new("C11", tier, "exploration");
    let p = FastqWrite;
    run.replays("fastq-write-roundtrip", &p);
    run.generated("fastq-write-roundtrip", &p, tier.pick(200_000, 1_500_000));
    let q = Unchanged;
    run.replays("write-unchanged", &q);
    run.generated("write-unchanged", &q, tier.pick(300_000, 2_500_000));
    run.finish(RULE, &["record byte ranges come from the reference model", "the parser used for the round trip is the crate's own reader"])
}

pub fn replay(run: &mut Run, file: &std::path::Path) -> Option<bool> {
    run.replay_file("fastq-write-roundtrip", &FastqWrite, file, true).or_else(|| run.replay_file("write-unchanged", &Unchanged, file, true))
}
