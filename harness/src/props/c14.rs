//! C14 — source errors surface unchanged; interrupted reads are invisible.
//! Fault enumeration: for every generated (input, configuration, history) the run is repeated with a
//! failure injected at the k-th source call for EVERY k of the fault-free run. (DESIGN.md §4 C14)

use crate::driver::{Out, SetOut};
use crate::engine::{boxed, CheckResult, Ctx, Prop, Run, Tier};
use crate::gen;
use crate::interp::{check_strict, livelock_check, run_ops_fmt, Ev, Op, RunSpec, Trace};
use crate::light::fmt_name;
use crate::model::{Format, Model, NErr};
use crate::policy::PolKind;
use crate::source::{CallKind, Script, ALL_EK, EK};
use crate::util::B;
use crate::{ensure, fail};
use proptest::collection::vec;
use proptest::prelude::*;
use seq_io::{fasta, fastq};
use serde_derive::{Deserialize, Serialize};

#[derive(Clone, Debug, Serialize, Deserialize, Hash)]
pub struct Case {
    pub format: Format,
    pub input: B,
    pub cap: usize,
    pub policy: PolKind,
    pub chunks: Vec<u16>,
    pub interrupts: Vec<u16>,
    pub ops: Vec<Op>,
    pub ek: EK,
    /// replay files of a single (case, k) pair set this; generated cases enumerate all k
    pub only_k: Option<u32>,
    /// what the injected io::Error carries (text, a seq_io error, another io::Error, nothing): see Script::payload
    #[serde(default)]
    pub payload: u8,
}

pub struct Faults;

fn same_step(a: &crate::interp::Step, b: &crate::interp::Step) -> bool {
    a.ev == b.ev && a.pos_after == b.pos_after && a.slots_after == b.slots_after
}

fn run(c: &Case, m: &Model, interrupts: &[u16], fault: Option<(u32, EK)>) -> Trace {
    let script = Script { chunks: c.chunks.clone(), interrupts: interrupts.to_vec(), fault, sticky: false, payload: c.payload };
    let spec = RunSpec { input: &c.input, cap: c.cap, policy: c.policy, script: &script, ops: &c.ops, model: m };
    run_ops_fmt(c.format, &spec)
}

impl Prop for Faults {
    type Case = Case;
    fn input_bytes<'a>(&self, c: &'a mut Self::Case) -> Option<&'a mut Vec<u8>> {
        Some(&mut c.input.0)
    }
    fn strategy(&self, _tier: Tier) -> BoxedStrategy<Case> {
        let per = |f: Format| {
            let input = match f {
                Format::Fasta => prop_oneof![4 => gen::fasta_doc_with(4, 8), 1 => gen::byte_soup(f)].boxed(),
                Format::Fastq => prop_oneof![3 => gen::fastq_valid_doc(4), 2 => gen::fastq_doc_with(4, false), 1 => gen::byte_soup(f)].boxed(),
            };
            (gen::input_and_cap(f, input), prop_oneof![4 => gen::policy_permissive(), 1 => gen::policy_any()], gen::chunks(), gen::interrupts(), vec(super::c04::op(6), 1..14), gen::ek(), gen::payload())
                .prop_map(move |((input, cap), policy, chunks, interrupts, ops, ek, payload)| Case { format: f, input, cap, policy, chunks, interrupts, ops, ek, only_k: None, payload })
        };
        boxed(prop_oneof![per(Format::Fasta), per(Format::Fastq)])
    }

    fn check(&self, c: &Case, ctx: &mut Ctx) -> CheckResult {
        let f = fmt_name(c.format);
        let m = Model::build(c.format, &c.input);
        // 1. interrupted reads are invisible
        let plain = run(c, &m, &[], None);
        livelock_check(f, &plain)?;
        let t0 = run(c, &m, &c.interrupts, None);
        livelock_check(f, &t0)?;
        let n_int = t0.src.borrow().interrupted;
        if n_int > 0 {
            ctx.class("interrupted reads occurred");
            ensure!(
                plain.steps.len() == t0.steps.len(),
                format!("{}/interrupted-visible", f),
                "with {} interrupted read(s) the history has {} steps instead of {}",
                n_int,
                t0.steps.len(),
                plain.steps.len()
            );
            for (i, (a, b)) in plain.steps.iter().zip(&t0.steps).enumerate() {
                ensure!(
                    same_step(a, b),
                    format!("{}/interrupted-visible", f),
                    "step {} ({:?}) differs when reads are interrupted and retried: without {:?} pos {:?}; with {:?} pos {:?}",
                    i,
                    a.op,
                    a.ev,
                    a.pos_after,
                    b.ev,
                    b.pos_after
                );
            }
        }
        // the fault-free run itself is what the model says (so "leading records of the input"); with a policy that
        // can refuse growth a call may return BufferLimit, after which the strict cursor model does not apply (what
        // follows an error is C06's subject) - those histories are only used for the fault / interrupt comparison
        if c.policy.can_refuse() {
            ctx.class("policy that can refuse growth (fault-free run not compared with the cursor model)");
        } else {
            check_strict(&m, &t0, false)?;
        }
        // 2. a failure at the k-th source call, for every k
        let calls = t0.src.borrow().calls.clone();
        let kk = calls.len();
        let mut nontrivial = false;
        let ks: Vec<usize> = match c.only_k {
            Some(k) => vec![k as usize],
            None => (0..kk).collect(),
        };
        for k in ks {
            if k >= kk {
                break;
            }
            let ek = ALL_EK[(k + ALL_EK.iter().position(|e| *e == c.ek).unwrap_or(0)) % ALL_EK.len()];
            let t = run(c, &m, &c.interrupts, Some((k as u32, ek)));
            if ctx.counting {
                ctx.evaluations += 1;
            }
            ensure!(
                t.src.borrow().faults_fired == 1,
                format!("{}/harness/fault-did-not-fire", f),
                "fault at call {} did not fire exactly once ({} times)",
                k,
                t.src.borrow().faults_fired
            );
            // the step during which call k happened (in the fault-free run)
            let s = match t0.steps.iter().position(|st| st.calls_after > k) {
                Some(s) => s,
                None => fail!(format!("{}/harness/no-step-for-call", f), "call {} belongs to no step", k),
            };
            ensure!(t.steps.len() > s, format!("{}/history-shorter", f), "fault at call {}: history ends before step {}", k, s);
            for i in 0..s {
                ensure!(
                    same_step(&t0.steps[i], &t.steps[i]),
                    format!("{}/steps-before-failure-differ", f),
                    "fault at source call {} (during step {}): the earlier step {} ({:?}) differs from the fault-free run: {:?} vs {:?}",
                    k,
                    s,
                    i,
                    t.steps[i].op,
                    t.steps[i].ev,
                    t0.steps[i].ev
                );
            }
            let want = NErr::Io(ek.name());
            let step = &t.steps[s];
            let call = &calls[k];
            let during = match (&t0.steps[s].ev, call.kind) {
                (Ev::Seek { .. }, CallKind::Seek) => "source seek of a seek()",
                (Ev::Seek { .. }, CallKind::Read) => "refill after the source seek of a seek()",
                (_, _) if t0.steps[..s].iter().all(|st| st.calls_after == 0) => "the very first fill (init)",
                _ => "a refill while reading",
            };
            ctx.class(&format!("fault during {}", during));
            ctx.class(&format!("fault kind {}", ek.name()));
            ctx.class(match c.payload % 5 {
                1 => "error payload: a fasta::Error",
                2 => "error payload: a fastq::Error",
                3 => "error payload: another io::Error",
                4 => "error without payload",
                _ => "error payload: text",
            });
            nontrivial = true;
            let ok = match &step.ev {
                Ev::Rec(o) | Ev::OwnedRec(o) => *o == Out::Err(want.clone()),
                Ev::Set { res, .. } => *res == SetOut::Err(want.clone()),
                Ev::Seek { res, .. } => *res == Err(want.clone()),
                Ev::Drained(outs) => {
                    // leading records of the fault-free drain, then the error
                    let base = match &t0.steps[s].ev {
                        Ev::Drained(b) => b.clone(),
                        _ => vec![],
                    };
                    match outs.iter().position(|o| matches!(o, Out::Err(_))) {
                        Some(p) => outs[p] == Out::Err(want.clone()) && p <= base.len() && outs[..p] == base[..p] && outs[..p].iter().all(|o| matches!(o, Out::Rec(_))),
                        None => false,
                    }
                }
                Ev::SeekSkipped | Ev::Policy | Ev::Cloned { .. } => false,
            };
            if !ok {
                let got = match &step.ev {
                    Ev::Rec(o) | Ev::OwnedRec(o) => format!("{:?}", o),
                    Ev::Set { res, .. } => format!("{:?}", res),
                    Ev::Seek { res, .. } => format!("{:?}", res),
                    Ev::Drained(o) => format!("{:?}", o),
                    x => format!("{:?}", x),
                };
                let what = if got.contains("Io(") { "wrong-kind" } else if got.contains("End") { "swallowed/end-of-input" } else if got.contains("Unexpected") { "turned-into-truncation" } else if got.contains("Err(") { "turned-into-other-error" } else { "swallowed" };
                fail!(
                    format!("{}/source-error-{}", f, what),
                    "source call {} ({:?} during {}) failed with {}; the API call {:?} (step {}) returned {} instead of Err(Io({}))",
                    k,
                    call.kind,
                    during,
                    ek.name(),
                    step.op,
                    s,
                    got,
                    ek.name()
                );
            }
        }
        ctx.class_n("fault points enumerated ((case, k) pairs)", kk as u64);
        if nontrivial {
            ctx.nontrivial(c, c);
        }
        Ok(())
    }
}

pub const RULE: &str = "cases = (format, input, capacity, permissive policy, chunk script, Interrupted pattern, history of 1..13 operations incl. seeks). For each case: (a) the run with the Interrupted pattern must equal the run without it step by step (events, positions, set contents) and satisfy the strict cursor model; (b) fault enumeration: for EVERY source call index k of the fault-free run (reads and seeks) the run is repeated with a one-shot failure of kind ALL_KINDS[(k+offset) mod 10] at call k; the API call during which call k happens must return Err(Io) with exactly that kind (for into_records(): the leading records, then that error) and all earlier steps must equal the fault-free run. evaluations counts cases plus (case, k) pairs; distinct_nontrivial counts distinct cases with >= 1 enumerated fault point. The injected io::Error carries a text, a fasta::Error, a fastq::Error, another io::Error or nothing as payload. Sub-check os-errors: real failures of a File opened with from_path / from_path_with_capacity (reading a directory; seeking to offset u64::MAX): the reader returns Error::Io with the kind the operating system reports for the same operation on a plain File.";

// ------------------------------------------------------------------------------------------------
// real operating-system failures of a File opened through from_path()

#[derive(Clone, Debug, Serialize, Deserialize, Hash)]
pub struct OsCase {
    pub format: Format,
    /// None = from_path, Some(c) = from_path_with_capacity(c)
    pub cap: Option<usize>,
    /// false: the path is a directory (every read fails); true: seek to byte offset u64::MAX (the seek fails)
    pub seek: bool,
}

pub struct OsErrors;

impl Prop for OsErrors {
    type Case = OsCase;
    fn strategy(&self, _tier: Tier) -> BoxedStrategy<OsCase> {
        boxed((gen::format(), prop::option::of(prop_oneof![Just(3usize), 4usize..200, Just(65536usize)]), any::<bool>()).prop_map(|(format, cap, seek)| OsCase { format, cap, seek }))
    }
    fn check(&self, c: &OsCase, ctx: &mut Ctx) -> CheckResult {
        use std::io::{Read, Seek, SeekFrom};
        let f = fmt_name(c.format);
        ctx.nontrivial(c, c);
        let base = std::env::temp_dir().join(format!("seqio_verif_c14_{}_{:?}", std::process::id(), std::thread::current().id()).replace(|ch: char| !ch.is_ascii_alphanumeric() && ch != '_', "_"));
        let _ = std::fs::remove_dir_all(&base);
        if let Err(e) = std::fs::create_dir_all(&base) {
            fail!("harness/tempdir", "cannot create {}: {}", base.display(), e);
        }
        let _cleanup = crate::util::TempPath(base.clone());
        let file = base.join("three_records");
        let text: &[u8] = if c.format == Format::Fasta { b">a\nACGT\n>b\nGG\n>c\nT\n" } else { b"@a\nACGT\n+\nIIII\n@b\nGG\n+\nII\n@c\nT\n+\nI\n" };
        if let Err(e) = std::fs::write(&file, text) {
            fail!("harness/tempfile", "cannot write {}: {}", file.display(), e);
        }
        let target = if c.seek { file.clone() } else { base.clone() };
        // what the operating system answers to the same operation on a plain File
        let expected = {
            let mut fh = match std::fs::File::open(&target) {
                Ok(fh) => fh,
                Err(e) => fail!("harness/os-errors", "cannot open {}: {}", target.display(), e),
            };
            let r = if c.seek { fh.seek(SeekFrom::Start(u64::MAX)).map(|_| ()) } else { fh.read(&mut [0u8; 16]).map(|_| ()) };
            match r {
                Err(e) => e.kind(),
                Ok(()) => {
                    // this platform does not fail here: nothing to check
                    ctx.class("skipped: the operating system does not fail this operation");
                    let _ = std::fs::remove_dir_all(&base);
                    return Ok(());
                }
            }
        };
        ctx.class(if c.seek { "failing seek of a File (offset u64::MAX)" } else { "failing read of a File (directory)" });
        macro_rules! go {
            ($m:ident) => {{
                let rdr = match c.cap {
                    None => $m::Reader::from_path(&target),
                    Some(k) => $m::Reader::from_path_with_capacity(&target, k),
                };
                let mut rdr = match rdr {
                    Ok(r) => r,
                    Err(e) => fail!(format!("{}/os-errors/open-failed", f), "from_path({}) failed: {}", target.display(), e),
                };
                let got: Option<std::io::ErrorKind> = if c.seek {
                    match rdr.next() {
                        Some(Ok(_)) => {}
                        other => fail!(format!("{}/os-errors/first-record", f), "first record of a three-record file: {:?}", other.map(|x| x.map(|_| ()).map_err(|e| e.to_string()))),
                    }
                    match rdr.seek(&$m::Position::new(1, u64::MAX)) {
                        Err($m::Error::Io(e)) => Some(e.kind()),
                        Err(e) => fail!(format!("{}/os-errors/source-error-turned-into-other-error", f), "the failing seek of the file surfaced as {}", e),
                        Ok(()) => None,
                    }
                } else {
                    match rdr.next() {
                        Some(Err($m::Error::Io(e))) => Some(e.kind()),
                        Some(Err(e)) => fail!(format!("{}/os-errors/source-error-turned-into-other-error", f), "the failing read of the file surfaced as {}", e),
                        Some(Ok(_)) => fail!(format!("{}/os-errors/record-from-nothing", f), "a record was returned although every read fails"),
                        None => None,
                    }
                };
                match got {
                    None => fail!(format!("{}/os-errors/source-error-swallowed", f), "the operating system reports {:?} for this operation, the reader reported success / end of input", expected),
                    Some(k) => ensure!(k == expected, format!("{}/os-errors/wrong-kind", f), "the operating system reports {:?} for this operation, the reader returned an I/O error of kind {:?}", expected, k),
                }
            }};
        }
        let r: CheckResult = (|| {
            match c.format {
                Format::Fasta => go!(fasta),
                Format::Fastq => go!(fastq),
            }
            Ok(())
        })();
        let _ = std::fs::remove_dir_all(&base);
        r
    }
}

pub fn run_check(tier: Tier) -> i32 {
    let mut run = Run::new("C14", tier, "fault_enumeration");
    let p = Faults;
    run.replays("fault-enumeration", &p);
    run.generated("fault-enumeration", &p, tier.pick(150_000, 2_000_000));
    let o = OsErrors;
    run.replays("os-errors", &o);
    run.generated("os-errors", &o, tier.pick(300, 3_000));
    run.finish(
        RULE,
        &[
            "what happens after the failing call belongs to C06",
            "one fault per run (k is exhaustive per case; multi-fault sequences are covered only through sticky faults in C06)",
        ],
    )
}

pub fn replay(run: &mut Run, file: &std::path::Path) -> Option<bool> {
    run.replay_file("fault-enumeration", &Faults, file, true).or_else(|| run.replay_file("os-errors", &OsErrors, file, true))
}
