//! C19 — owned records and record sets survive serialisation (serde_json round trip). (DESIGN.md §4 C19)

use crate::driver::{FaRdr, FqRdr, Rdr};
use crate::engine::{boxed, CheckResult, Ctx, Prop, Run, Tier};
use crate::gen;
use crate::model::Format;
use crate::util::B;
use crate::{ensure, fail};
use proptest::collection::vec;
use proptest::prelude::*;
use seq_io::{fasta, fastq};
use serde_derive::{Deserialize, Serialize};

#[derive(Clone, Debug, Serialize, Deserialize, Hash)]
pub struct OwnedCase {
    pub head: B,
    pub seq: B,
    pub qual: B,
}

pub struct OwnedSerde;

impl Prop for OwnedSerde {
    type Case = OwnedCase;
    fn strategy(&self, _tier: Tier) -> BoxedStrategy<OwnedCase> {
        // mostly short fields; 1 in 15 several KiB long (buffered deserialisers preallocate cautiously at such sizes)
        let bytes = || prop_oneof![28 => vec(any::<u8>(), 0..40), 1 => vec(any::<u8>(), 4000..4200), 1 => (any::<u8>(), 4097usize..70000).prop_map(|(b, n)| (0..n).map(|i| b.wrapping_add((i % 251) as u8)).collect::<Vec<u8>>())].prop_map(B);
        boxed((bytes(), bytes(), bytes()).prop_map(|(head, seq, qual)| OwnedCase { head, seq, qual }))
    }
    fn check(&self, c: &OwnedCase, ctx: &mut Ctx) -> CheckResult {
        if !c.head.is_empty() || !c.seq.is_empty() {
            ctx.nontrivial(c, c);
        }
        let a = fasta::OwnedRecord { head: c.head.0.clone(), seq: c.seq.0.clone() };
        let s = match serde_json::to_vec(&a) {
            Ok(s) => s,
            Err(e) => fail!("serde/fasta-owned/serialize", "serialisation failed: {}", e),
        };
        let b: fasta::OwnedRecord = match serde_json::from_slice(&s) {
            Ok(b) => b,
            Err(e) => fail!("serde/fasta-owned/deserialize", "deserialisation failed: {}", e),
        };
        ensure!(a == b, "serde/fasta-owned/not-equal", "{:?} came back as {:?}", a, b);
        let a = fastq::OwnedRecord { head: c.head.0.clone(), seq: c.seq.0.clone(), qual: c.qual.0.clone() };
        let s = match serde_json::to_vec(&a) {
            Ok(s) => s,
            Err(e) => fail!("serde/fastq-owned/serialize", "serialisation failed: {}", e),
        };
        let b: fastq::OwnedRecord = match serde_json::from_slice(&s) {
            Ok(b) => b,
            Err(e) => fail!("serde/fastq-owned/deserialize", "deserialisation failed: {}", e),
        };
        ensure!(a == b, "serde/fastq-owned/not-equal", "{:?} came back as {:?}", a, b);
        // the same through a positional (not self-describing) format, singly and as a list
        let fa = fasta::OwnedRecord { head: c.head.0.clone(), seq: c.seq.0.clone() };
        let list = vec![a.clone(), fastq::OwnedRecord { head: c.qual.0.clone(), seq: vec![], qual: vec![] }, a.clone()];
        let falist = vec![fa.clone(), fasta::OwnedRecord { head: c.qual.0.clone(), seq: vec![] }, fa.clone()];
        macro_rules! positional {
            ($v:expr, $t:ty, $name:expr) => {{
                let bytes = match crate::minibin::to_vec(&$v) {
                    Ok(b) => b,
                    Err(e) => fail!(format!("serde-positional/{}/serialize", $name), "serialisation failed: {}", e),
                };
                match crate::minibin::from_slice::<$t>(&bytes) {
                    Ok(back) => ensure!(back == $v, format!("serde-positional/{}/not-equal", $name), "{:?} came back as {:?} from a positional (bincode-like) format", $v, back),
                    Err(e) => fail!(format!("serde-positional/{}/deserialize", $name), "deserialisation of {:?} from a positional (bincode-like) format failed: {}", $v, e),
                }
            }};
        }
        // and through a buffered self-describing value tree (what serde does internally for tagged / flattened
        // types, and what serde_json::Value, toml or yaml front ends do): sequence lengths are known exactly there
        macro_rules! via_value {
            ($v:expr, $t:ty, $name:expr) => {{
                let tree = match serde_json::to_value(&$v) {
                    Ok(t) => t,
                    Err(e) => fail!(format!("serde-value/{}/serialize", $name), "serialisation failed: {}", e),
                };
                match serde_json::from_value::<$t>(tree) {
                    Ok(back) => ensure!(back == $v, format!("serde-value/{}/not-equal", $name), "came back different from a buffered value tree: head {} -> {} bytes, seq {} -> {} bytes", $v.head.len(), back.head.len(), $v.seq.len(), back.seq.len()),
                    Err(e) => fail!(format!("serde-value/{}/deserialize", $name), "deserialisation from a buffered value tree failed: {}", e),
                }
            }};
        }
        via_value!(fa, fasta::OwnedRecord, "fasta-owned");
        via_value!(a, fastq::OwnedRecord, "fastq-owned");
        if c.head.len() > 4096 || c.seq.len() > 4096 || c.qual.len() > 4096 {
            ctx.class("owned record with a field longer than 4096 bytes");
        }
        positional!(fa, fasta::OwnedRecord, "fasta-owned");
        positional!(a, fastq::OwnedRecord, "fastq-owned");
        positional!(falist, Vec<fasta::OwnedRecord>, "fasta-owned-list");
        positional!(list, Vec<fastq::OwnedRecord>, "fastq-owned-list");
        if c.seq.is_empty() || c.qual.is_empty() {
            ctx.class("owned record with an empty field");
        }
        Ok(())
    }
}

#[derive(Clone, Debug, Serialize, Deserialize, Hash)]
pub struct SetCase {
    pub format: Format,
    pub input: B,
    pub cap: usize,
    /// exact batch sizes to request, cycled (0 = plain read_record_set); one reused slot
    pub batch: Vec<u8>,
}

pub struct SetSerde;

fn roundtrip<R>(input: &[u8], cap: usize, batch: &[u8], ctx: &mut Ctx, name: &str) -> CheckResult
where
    R: Rdr<Src = crate::source::Source>,
    R::Set: serde::Serialize + serde::de::DeserializeOwned,
{
    let shared = std::rc::Rc::new(crate::policy::Shared::default());
    let (src, _log) = crate::source::Source::new(std::rc::Rc::new(input.to_vec()), Default::default(), 1 << 30);
    let (pol, _) = crate::policy::RecPolicy::new(crate::policy::PolKind::Std, shared);
    let mut rdr = R::open(src, cap, pol);
    let mut set = R::Set::default();
    let mut prev_len = 0usize;
    let mut i = 0usize;
    loop {
        let n = if batch.is_empty() { 0 } else { batch[i % batch.len()] };
        i += 1;
        let res = rdr.read_set(&mut set, if n == 0 { None } else { Some(n as usize) });
        let filled = res == crate::driver::SetOut::Ok;
        let before = R::set_recs(&set);
        let len = R::set_len(&set);
        if filled && len < prev_len {
            ctx.class("reused set carries stale offsets beyond its length");
        }
        if filled {
            ctx.class("filled set serialised");
        } else {
            ctx.class("set serialised after end / error");
        }
        let s = match serde_json::to_vec(&set) {
            Ok(s) => s,
            Err(e) => fail!(format!("serde/{}-set/serialize", name), "serialisation failed: {}", e),
        };
        let back: R::Set = match serde_json::from_slice(&s) {
            Ok(b) => b,
            Err(e) => fail!(format!("serde/{}-set/deserialize", name), "deserialisation failed: {}\n  json: {}", e, String::from_utf8_lossy(&s)),
        };
        let after = R::set_recs(&back);
        ensure!(
            R::set_len(&back) == len,
            format!("serde/{}-set/len-differs", name),
            "len() {} before, {} after the round trip",
            len,
            R::set_len(&back)
        );
        ensure!(
            after == before,
            format!("serde/{}-set/records-differ", name),
            "records before: {:?}\n  after: {:?}",
            before,
            after
        );
        // a second generation: the copy serialises to the same text
        let s2 = serde_json::to_vec(&back).unwrap_or_default();
        ensure!(s2 == s, format!("serde/{}-set/not-idempotent", name), "re-serialising the deserialised set gives different text");
        // the same through a positional (not self-describing) format
        let bytes = match crate::minibin::to_vec(&set) {
            Ok(b) => b,
            Err(e) => fail!(format!("serde-positional/{}-set/serialize", name), "serialisation failed: {}", e),
        };
        let back2: R::Set = match crate::minibin::from_slice(&bytes) {
            Ok(b) => b,
            Err(e) => fail!(format!("serde-positional/{}-set/deserialize", name), "deserialisation from a positional (bincode-like) format failed: {}", e),
        };
        ensure!(
            R::set_len(&back2) == len && R::set_recs(&back2) == before,
            format!("serde-positional/{}-set/records-differ", name),
            "positional format: {} records before, {} after; before {:?}\n  after {:?}",
            len,
            R::set_len(&back2),
            before.iter().take(4).collect::<Vec<_>>(),
            R::set_recs(&back2).iter().take(4).collect::<Vec<_>>()
        );
        // and through a buffered value tree (exact sequence lengths known to the deserialiser)
        let tree = match serde_json::to_value(&set) {
            Ok(t) => t,
            Err(e) => fail!(format!("serde-value/{}-set/serialize", name), "serialisation failed: {}", e),
        };
        let back3: R::Set = match serde_json::from_value(tree) {
            Ok(b) => b,
            Err(e) => fail!(format!("serde-value/{}-set/deserialize", name), "deserialisation from a buffered value tree failed: {}", e),
        };
        ensure!(
            R::set_len(&back3) == len && R::set_recs(&back3) == before,
            format!("serde-value/{}-set/records-differ", name),
            "buffered value tree: {} records before, {} after; before {:?}\n  after {:?}",
            len,
            R::set_len(&back3),
            before.iter().take(4).collect::<Vec<_>>(),
            R::set_recs(&back3).iter().take(4).collect::<Vec<_>>()
        );
        if filled {
            prev_len = len;
        }
        if !filled || i > 64 {
            break;
        }
    }
    Ok(())
}

impl Prop for SetSerde {
    type Case = SetCase;
    fn input_bytes<'a>(&self, c: &'a mut Self::Case) -> Option<&'a mut Vec<u8>> {
        Some(&mut c.input.0)
    }
    fn strategy(&self, _tier: Tier) -> BoxedStrategy<SetCase> {
        let per = |f: Format| {
            let small = (gen::input_and_cap(f, gen::any_input(f, true)), vec(prop_oneof![2 => Just(0u8), 3 => 1u8..6], 0..5))
                .prop_map(move |((input, cap), batch)| SetCase { format: f, input, cap, batch });
            // record sets holding more than 64 KiB of data (capacity above the default, or exact reads of many records)
            let big = (prop_oneof![3 => gen::big_input(f), 1 => gen::exact_len_doc(f)], prop_oneof![3 => gen::big_cap(), 1 => Just(1usize << 18), 1 => Just(1usize << 20)], vec(prop_oneof![2 => Just(0u8), 1 => 20u8..200, 2 => 1u8..6], 0..6)).prop_map(move |(input, cap, batch)| SetCase { format: f, input, cap, batch });
            prop_oneof![40 => small, 1 => big]
        };
        boxed(prop_oneof![per(Format::Fasta), per(Format::Fastq)])
    }
    fn check(&self, c: &SetCase, ctx: &mut Ctx) -> CheckResult {
        let m = crate::model::Model::build(c.format, &c.input);
        if m.recs.len() >= 2 {
            ctx.nontrivial(c, c);
        }
        match c.format {
            Format::Fasta => roundtrip::<FaRdr<crate::source::Source>>(&c.input, c.cap, &c.batch, ctx, "fasta"),
            Format::Fastq => roundtrip::<FqRdr<crate::source::Source>>(&c.input, c.cap, &c.batch, ctx, "fastq"),
        }
    }
}

pub const RULE: &str = "sub-check owned-records: fasta/fastq OwnedRecord with arbitrary bytes (0..40 each, 1 in 15 fields 4000..70000 bytes) -> serde_json text, a buffered serde_json::Value tree and a positional bincode-like format (singly and inside a list) -> equal. Sub-check record-sets: (format, any input, capacity, list of batch sizes) -> one reused RecordSet is refilled (plain and exact reads, so later batches are smaller than earlier ones and stale offsets remain beyond its length) and after every call serialised with serde_json (text and buffered Value tree) and with a positional bincode-like format (harness/src/minibin.rs) and deserialised: same len(), same records through every accessor, idempotent re-serialisation; also after the end / an error. Non-trivial = input with >= 2 records (sets) / non-empty fields (owned). Distinct = hash(case).";

pub fn run(tier: Tier) -> i32 {
    let mut run = Run::new("C19", tier, "exploration");
    let p = OwnedSerde;
    run.replays("owned-records", &p);
    run.generated("owned-records", &p, tier.pick(100_000, 500_000));
    let q = SetSerde;
    run.replays("record-sets", &q);
    run.generated("record-sets", &q, tier.pick(150_000, 1_500_000));
    run.finish(RULE, &["three paths: serde_json text (self-describing, streaming), serde_json::Value (self-describing, buffered: exact sequence lengths) and a minimal positional format written for this harness (bincode-like); other formats are not exercised"])
}

pub fn replay(run: &mut Run, file: &std::path::Path) -> Option<bool> {
    run.replay_file("owned-records", &OwnedSerde, file, true).or_else(|| run.replay_file("record-sets", &SetSerde, file, true))
}
