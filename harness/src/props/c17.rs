//! C17 — parse errors pinpoint the offending record, identically for all buffer sizes, and the
//! message contains the values. (DESIGN.md §4 C17)

use crate::driver::{fa_err, fq_err};
use crate::engine::{boxed, CheckResult, Ctx, Prop, Run, Tier};
use crate::gen;
use crate::model::{Format, Model, NErr, Terminal};
use crate::source::{Script, Source};
use crate::util::B;
use crate::{ensure, fail};
use proptest::collection::vec;
use proptest::prelude::*;
use seq_io::{fasta, fastq};
use serde_derive::{Deserialize, Serialize};
use std::rc::Rc;

#[derive(Clone, Debug, Serialize, Deserialize, Hash)]
pub struct Case {
    pub format: Format,
    pub input: B,
    pub cap: usize,
    pub script: Script,
    pub via_sets: bool,
}

pub struct ErrorsPinpoint;

fn fasta_invalid_start() -> BoxedStrategy<B> {
    // 0..40 blank lines (LF / CRLF), then a line that does not start with '>'
    (
        vec(any::<bool>(), 0..40),
        prop_oneof![4 => prop::sample::select(&b"A@;x +\r"[..]), 1 => any::<u8>().prop_map(|b| if b == b'>' || b == b'\n' { b'?' } else { b })],
        vec(gen::soup_byte(Format::Fasta), 0..12),
        any::<bool>(),
    )
        .prop_map(|(blank, first, rest, lone_cr)| {
            let mut v = Vec::new();
            for crlf in blank {
                if crlf {
                    v.push(b'\r');
                }
                v.push(b'\n');
            }
            v.push(first);
            if first == b'\r' && !lone_cr {
                // "\r" alone would be a blank line: make it non-blank
                v.push(b'x');
            }
            v.extend_from_slice(&rest);
            B(v)
        })
        .boxed()
}

fn found_rendered(msg: &str, found: u8) -> bool {
    let ch = found as char;
    let cands = [
        ch.to_string(),
        ch.escape_default().to_string(),
        ch.escape_debug().to_string(),
        format!("{}", found),
        format!("{:#x}", found),
        format!("{:x}", found),
        format!("{:#04x}", found),
        format!("{:02x}", found),
        format!("{:02X}", found),
    ];
    cands.iter().any(|c| !c.is_empty() && msg.contains(c.as_str()))
}

pub fn check_message(f: &str, e: &NErr, msg: &str) -> CheckResult {
    let need = |what: &str, s: String| -> CheckResult {
        ensure!(msg.contains(&s), format!("{}/message-lacks-{}", f, what), "message {:?} does not contain the {} {:?}", msg, what, s);
        Ok(())
    };
    match e {
        NErr::InvalidStart { line, found, id } | NErr::InvalidSep { line, found, id } => {
            need("line", line.to_string())?;
            ensure!(found_rendered(msg, *found), format!("{}/message-lacks-found-byte", f), "message {:?} does not render the found byte {:?}", msg, *found as char);
            if let Some(id) = id {
                need("id", id.clone())?;
            }
        }
        NErr::UnequalLengths { line, seq, qual, id } => {
            need("line", line.to_string())?;
            need("sequence-length", seq.to_string())?;
            need("quality-length", qual.to_string())?;
            if let Some(id) = id {
                need("id", id.clone())?;
            }
        }
        NErr::UnexpectedEnd { line, id } => {
            need("line", line.to_string())?;
            if let Some(id) = id {
                need("id", id.clone())?;
            }
        }
        _ => {}
    }
    Ok(())
}

impl Prop for ErrorsPinpoint {
    type Case = Case;
    fn input_bytes<'a>(&self, c: &'a mut Self::Case) -> Option<&'a mut Vec<u8>> {
        Some(&mut c.input.0)
    }
    fn strategy(&self, _tier: Tier) -> BoxedStrategy<Case> {
        let fa = prop_oneof![3 => fasta_invalid_start(), 1 => gen::byte_soup(Format::Fasta)];
        let fq = prop_oneof![32 => gen::fastq_doc_defective(10), 4 => gen::mutated(Format::Fastq, gen::fastq_valid_doc(6)), 4 => gen::byte_soup(Format::Fastq), 2 => gen::fastq_long_id_defective(), 1 => gen::fastq_garbage_tail_doc()];
        let per = |f: Format, input: BoxedStrategy<B>| {
            (gen::input_and_cap(f, input), gen::script(), any::<bool>()).prop_map(move |((input, cap), script, via_sets)| Case { format: f, input, cap, script, via_sets })
        };
        boxed(prop_oneof![1 => per(Format::Fasta, fa.boxed()), 4 => per(Format::Fastq, fq.boxed())])
    }

    fn check(&self, c: &Case, ctx: &mut Ctx) -> CheckResult {
        let f = crate::light::fmt_name(c.format);
        let m = Model::build(c.format, &c.input);
        let want = match &m.term {
            Terminal::Err(e) => e.clone(),
            _ => {
                ctx.class("skipped: input has no (in-domain) format error");
                return Ok(());
            }
        };
        ctx.class(&format!("error kind: {}", want.kind()));
        ctx.class(&format!("defective record index: {}", match m.recs.len() { 0 => "0", 1 => "1", 2..=4 => "2-4", _ => "5+" }));
        if m.term_byte / c.cap != c.input.len().saturating_sub(1) / c.cap || m.term_byte >= c.cap {
            ctx.class("defect lies beyond the first buffer window");
        }
        if (m.term_byte % c.cap) + 8 > c.cap {
            ctx.class("defective record starts within 8 bytes of a buffer-window end");
        }
        ctx.nontrivial(&(c.format, &c.input, c.cap, &c.script.chunks, c.via_sets), c);
        let budget = crate::interp::budget(c.input.len(), c.cap, m.recs.len() + 8);
        let (src, log) = Source::new(Rc::new(c.input.0.clone()), c.script.clone(), budget);
        // find the first error and its message
        let (got, msg): (Option<NErr>, Option<String>) = match c.format {
            Format::Fasta => {
                let mut rdr = fasta::Reader::with_capacity(src, c.cap);
                let mut res = (None, None);
                if c.via_sets {
                    let mut set = fasta::RecordSet::default();
                    loop {
                        match rdr.read_record_set(&mut set) {
                            None => break,
                            Some(Ok(())) => {}
                            Some(Err(e)) => {
                                res = (Some(fa_err(&e)), Some(e.to_string()));
                                break;
                            }
                        }
                    }
                } else {
                    loop {
                        match rdr.next() {
                            None => break,
                            Some(Ok(_)) => {}
                            Some(Err(e)) => {
                                res = (Some(fa_err(&e)), Some(e.to_string()));
                                break;
                            }
                        }
                    }
                }
                res
            }
            Format::Fastq => {
                let mut rdr = fastq::Reader::with_capacity(src, c.cap);
                let mut res = (None, None);
                if c.via_sets {
                    let mut set = fastq::RecordSet::default();
                    loop {
                        match rdr.read_record_set(&mut set) {
                            None => break,
                            Some(Ok(())) => {}
                            Some(Err(e)) => {
                                res = (Some(fq_err(&e)), Some(e.to_string()));
                                break;
                            }
                        }
                    }
                } else {
                    loop {
                        match rdr.next() {
                            None => break,
                            Some(Ok(_)) => {}
                            Some(Err(e)) => {
                                res = (Some(fq_err(&e)), Some(e.to_string()));
                                break;
                            }
                        }
                    }
                }
                res
            }
        };
        crate::interp_livelock(&log, c.format)?;
        let got = match got {
            Some(g) => g,
            None => fail!(format!("{}/error-missed", f), "the input has a format error ({:?}) but reading reported none", want),
        };
        // fields: variant, line, found / lengths must be the model's; id equal whenever given
        let strip = |e: &NErr| -> NErr {
            match e.clone() {
                NErr::InvalidStart { line, found, .. } => NErr::InvalidStart { line, found, id: None },
                NErr::InvalidSep { line, found, .. } => NErr::InvalidSep { line, found, id: None },
                NErr::UnequalLengths { line, seq, qual, .. } => NErr::UnequalLengths { line, seq, qual, id: None },
                NErr::UnexpectedEnd { line, .. } => NErr::UnexpectedEnd { line, id: None },
                x => x,
            }
        };
        ensure!(
            strip(&got) == strip(&want),
            format!("{}/{}/wrong-fields", f, want.kind()),
            "reported {:?}, the offending record is described by {:?} (capacity {})",
            got,
            want,
            c.cap
        );
        let id_of = |e: &NErr| match e {
            NErr::InvalidStart { id, .. } | NErr::InvalidSep { id, .. } | NErr::UnequalLengths { id, .. } | NErr::UnexpectedEnd { id, .. } => id.clone(),
            _ => None,
        };
        if let Some(id) = id_of(&got) {
            let true_id = match id_of(&want) {
                Some(t) => t,
                None => {
                    // the model gives no id for this error; the record's id is still well defined whenever
                    // its header line is complete: derive it from the offending group's first line
                    let line = c.input[m.term_byte..].split(|&b| b == b'\n').next().unwrap_or(&[]);
                    let h = crate::util::trim_cr(if line.is_empty() { line } else { &line[1..] });
                    crate::util::lossy(h.split(|&b| b == b' ').next().unwrap())
                }
            };
            ensure!(
                id == true_id,
                format!("{}/{}/wrong-id", f, want.kind()),
                "reported id {:?}, the offending record's id is {:?}",
                id,
                true_id
            );
            ctx.class("id given and compared");
        }
        check_message(f, &got, msg.as_deref().unwrap_or(""))
    }
}

// ------------------------------------------------------------------------------------------------
// sub-check 2: format errors met anywhere in a read history (refused growth, policy changes, exact-count set
// reads, seeks back) still pinpoint the offending record

#[derive(Clone, Debug, Serialize, Deserialize, Hash)]
pub struct HCase {
    pub format: Format,
    pub input: B,
    pub cap: usize,
    pub policy: crate::policy::PolKind,
    pub script: Script,
    pub ops: Vec<crate::interp::Op>,
}

pub struct ErrorsInHistories;

fn strip(e: &NErr) -> NErr {
    match e.clone() {
        NErr::InvalidStart { line, found, .. } => NErr::InvalidStart { line, found, id: None },
        NErr::InvalidSep { line, found, .. } => NErr::InvalidSep { line, found, id: None },
        NErr::UnequalLengths { line, seq, qual, .. } => NErr::UnequalLengths { line, seq, qual, id: None },
        NErr::UnexpectedEnd { line, .. } => NErr::UnexpectedEnd { line, id: None },
        x => x,
    }
}

impl Prop for ErrorsInHistories {
    type Case = HCase;
    fn input_bytes<'a>(&self, c: &'a mut Self::Case) -> Option<&'a mut Vec<u8>> {
        Some(&mut c.input.0)
    }
    fn strategy(&self, _tier: Tier) -> BoxedStrategy<HCase> {
        use crate::interp::Op;
        let op = prop_oneof![
            6 => Just(Op::Next),
            1 => Just(Op::Owned),
            4 => (0u8..3).prop_map(Op::ReadSet),
            6 => (0u8..3, prop_oneof![12 => 1u8..8, 1 => 250u8..=255]).prop_map(|(s, n)| Op::ReadExact(s, n)),
            3 => gen::policy_any().prop_map(Op::SetPolicy),
            1 => any::<u16>().prop_map(Op::Seek),
            1 => any::<u16>().prop_map(Op::SeekSeen),
        ];
        let fa = prop_oneof![3 => fasta_invalid_start(), 1 => gen::byte_soup(Format::Fasta)];
        let fq = prop_oneof![8 => gen::fastq_doc_defective(10), 2 => gen::fastq_doc_defective(30), 1 => gen::mutated(Format::Fastq, gen::fastq_valid_doc(6))];
        let per = move |f: Format, input: BoxedStrategy<B>| {
            let op = op.clone();
            (gen::input_and_cap(f, input), gen::policy_any(), gen::script(), vec(op, 1..24)).prop_map(move |((input, cap), policy, script, ops)| HCase { format: f, input, cap, policy, script, ops })
        };
        boxed(prop_oneof![1 => per.clone()(Format::Fasta, fa.boxed()), 6 => per(Format::Fastq, fq.boxed())])
    }

    fn check(&self, c: &HCase, ctx: &mut Ctx) -> CheckResult {
        use crate::driver::{Out, SetOut};
        use crate::interp::{run_ops_fmt, Ev, RunSpec};
        let f = crate::light::fmt_name(c.format);
        let m = Model::build(c.format, &c.input);
        let want = match &m.term {
            Terminal::Err(e) => Some(e.clone()),
            Terminal::End => None,
            Terminal::Unspecified => {
                ctx.class("skipped: out-of-domain FASTQ group");
                return Ok(());
            }
        };
        let spec = RunSpec { input: &c.input, cap: c.cap, policy: c.policy, script: &c.script, ops: &c.ops, model: &m };
        let t = run_ops_fmt(c.format, &spec);
        crate::interp_livelock(&t.src, c.format)?;
        let mut limits_before = 0;
        let mut exact_limit_nonempty = false;
        let mut errors = 0;
        for (si, s) in t.steps.iter().enumerate() {
            let mut outs: Vec<&NErr> = Vec::new();
            match &s.ev {
                Ev::Rec(Out::Err(e)) | Ev::OwnedRec(Out::Err(e)) => outs.push(e),
                Ev::Set { res: SetOut::Err(e), n, .. } => {
                    if *e == NErr::BufferLimit && n.is_some() {
                        exact_limit_nonempty = true;
                    }
                    outs.push(e)
                }
                Ev::Seek { res: Err(e), .. } => outs.push(e),
                Ev::Drained(v) => {
                    for o in v {
                        if let Out::Err(e) = o {
                            outs.push(e);
                        }
                    }
                }
                _ => {}
            }
            for e in outs {
                if *e == NErr::BufferLimit {
                    limits_before += 1;
                    continue;
                }
                if !e.is_format() {
                    continue;
                }
                errors += 1;
                let want = match &want {
                    Some(w) => w,
                    None => fail!(format!("{}/history/spurious-format-error", f), "step {} ({:?}): {:?} reported, but the input is well-formed", si, s.op, e),
                };
                ensure!(
                    strip(e) == strip(want),
                    format!("{}/history/{}/wrong-fields", f, want.kind()),
                    "step {} ({:?}): reported {:?}, the offending record is described by {:?} (capacity {}, {} BufferLimit result(s) earlier in the history)",
                    si,
                    s.op,
                    e,
                    want,
                    c.cap,
                    limits_before
                );
                if limits_before > 0 {
                    ctx.class("format error reported after a refused growth earlier in the history");
                    if exact_limit_nonempty {
                        ctx.class("format error reported after an exact-count set read hit BufferLimit");
                    }
                }
                if t.steps[..si].iter().any(|p| matches!(p.ev, Ev::Seek { res: Ok(()), .. })) {
                    ctx.class("format error reported after a seek");
                }
            }
        }
        if errors > 0 {
            ctx.nontrivial(c, c);
        }
        Ok(())
    }
}

pub const RULE: &str = "cases = malformed inputs: FASTQ documents with a defect of each kind (wrong start byte, wrong separator byte, length mismatch, truncation at any byte, dropped line) at a generated record index 0..10, mutated valid documents, soups, defective records whose id is 1000..70 000 bytes long, valid records followed by a garbage tail of 66..300 kB with 0..3 line breaks; FASTA invalid starts behind 0..40 blank LF/CRLF lines; x capacity absolute or aimed at the offending group's offset (+-3) x chunk script x {next, record sets}. Oracle: the first error's variant, line, found byte and lengths equal the reference model's; the id, when given, is the offending record's id; to_string() contains the decimal line number, both lengths, the id and some rendering of the found byte. Inputs without an in-domain format error are skipped (counted). Sub-check errors-in-histories: the same inputs x capacity x any policy (refusing ones included) x histories of next / records() / read_record_set / read_record_set_exact(n) / set_policy / seek (no source faults): every format error returned by any call has the model's variant, line, found byte and lengths (a well-formed input yields none). Non-trivial = every evaluated case (all have an error) / histories in which a format error was reported. Distinct = hash(input, capacity, chunks, mode).";

pub fn run(tier: Tier) -> i32 {
    let mut run = Run::new("C17", tier, "exploration");
    let p = ErrorsPinpoint;
    run.replays("error-fields", &p);
    run.generated("error-fields", &p, tier.pick(250_000, 4_000_000));
    let h = ErrorsInHistories;
    run.replays("errors-in-histories", &h);
    run.generated("errors-in-histories", &h, tier.pick(150_000, 3_000_000));
    let l = super::large::LargeCoords { errors: true };
    run.replays("large-coordinates", &l);
    run.generated("large-coordinates", &l, tier.pick(300, 6_000));
    super::large::run_beyond(&mut run, true);
    run.finish(&format!("{} {}", RULE, super::large::RULE_LARGE), &["reference model M_fa/M_fq defines the true line, byte and lengths", "the message format itself is not prescribed: only the presence of the values is checked"])
}

pub fn replay(run: &mut Run, file: &std::path::Path) -> Option<bool> {
    run.replay_file("error-fields", &ErrorsPinpoint, file, true).or_else(|| run.replay_file("errors-in-histories", &ErrorsInHistories, file, true))
        .or_else(|| run.replay_file("large-coordinates", &super::large::LargeCoords { errors: true }, file, true))
        .or_else(|| run.replay_file("beyond-4-gib", &super::large::Beyond4G { errors: true, variants: &[0] }, file, true))
}
