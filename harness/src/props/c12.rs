//! C12 — LF and CRLF versions of a file parse identically (metamorphic), and both parse back to
//! the structure they were rendered from. (DESIGN.md §4 C12)

use crate::driver::Out;
use crate::engine::{boxed, CheckResult, Ctx, Prop, Run, Tier};
use crate::light::{read_all, Mode};
use crate::model::{Format, NRec};
use crate::policy::PolKind;
use crate::source::Script;
use crate::util::B;
use crate::{ensure, fail};
use proptest::collection::vec;
use proptest::prelude::*;
use serde_derive::{Deserialize, Serialize};

#[derive(Clone, Debug, Serialize, Deserialize, Hash, PartialEq, Eq)]
pub struct RecS {
    pub head: B,
    /// FASTA: sequence lines (may be empty = blank line inside the record); FASTQ: exactly one
    pub lines: Vec<B>,
    pub qual: Option<B>,
    /// FASTQ: text after the '+' of the separator line (None = bare '+'; old-style files repeat the header there)
    #[serde(default)]
    pub sep: Option<B>,
}

#[derive(Clone, Debug, Serialize, Deserialize, Hash)]
pub struct Case {
    pub format: Format,
    /// number of leading blank lines (FASTA only)
    pub lead: u8,
    pub recs: Vec<RecS>,
    /// trailing blank lines (FASTQ: at most 2, the documented tolerance)
    pub trail: u8,
    pub final_term: bool,
    /// rendering B: per-line CRLF choice, cycled (FASTA mixture); all true = pure CRLF
    pub crlf_pattern: Vec<bool>,
    pub cap_a: usize,
    pub cap_b: usize,
    pub mode: Mode,
    pub script_b: Script,
}

pub fn render(c: &Case, pattern: &[bool]) -> Vec<u8> {
    let mut out = Vec::new();
    let mut li = 0usize;
    let mut term = |out: &mut Vec<u8>| {
        let crlf = if pattern.is_empty() { false } else { pattern[li % pattern.len()] };
        li += 1;
        if crlf {
            out.push(b'\r');
        }
        out.push(b'\n');
        crlf
    };
    let mut last_crlf = false;
    if c.format == Format::Fasta {
        for _ in 0..c.lead {
            term(&mut out);
        }
    }
    for r in &c.recs {
        out.push(if c.format == Format::Fasta { b'>' } else { b'@' });
        out.extend_from_slice(&r.head);
        term(&mut out);
        for l in &r.lines {
            out.extend_from_slice(l);
            last_crlf = term(&mut out);
        }
        if let Some(q) = &r.qual {
            out.push(b'+');
            if let Some(t) = &r.sep {
                out.extend_from_slice(t);
            }
            term(&mut out);
            out.extend_from_slice(q);
            last_crlf = term(&mut out);
        }
        if c.format == Format::Fasta && r.lines.is_empty() {
            last_crlf = out.len() >= 2 && out[out.len() - 2] == b'\r';
        }
    }
    if !c.final_term && !c.recs.is_empty() {
        out.pop();
        if last_crlf && out.last() == Some(&b'\r') {
            out.pop();
        }
    } else {
        for _ in 0..c.trail {
            term(&mut out);
        }
    }
    out
}

fn field() -> BoxedStrategy<B> {
    vec(prop::sample::select(&b"ACGTNacgt ;>@+!~\x80\xff"[..]), 0..12).prop_map(B).boxed()
}

pub struct LineEndings;

impl Prop for LineEndings {
    type Case = Case;
    fn strategy(&self, _tier: Tier) -> BoxedStrategy<Case> {
        let fa_rec = (field(), vec(prop_oneof![1 => Just(B(vec![])), 5 => field()], 0..5)).prop_map(|(head, mut lines)| {
            // a sequence line must not look like a header
            for l in lines.iter_mut() {
                if l.first() == Some(&b'>') {
                    l.0[0] = b'A';
                }
            }
            RecS { head, lines, qual: None, sep: None }
        });
        let fq_rec = (field(), field(), vec(prop::sample::select(&b"!5I~@+"[..]), 12), prop_oneof![6 => Just(None), 1 => field().prop_map(Some), 2 => Just(Some(B(vec![0])))]).prop_map(|(head, seq, q, sep)| {
            let qual = B(q[..seq.len()].to_vec());
            // Some([0]) stands for "the header repeated"
            let sep = match sep {
                Some(t) if t.0 == [0] => Some(head.clone()),
                x => x,
            };
            RecS { head, lines: vec![seq], qual: Some(qual), sep }
        });
        let caps = || prop_oneof![6 => 3usize..24, 1 => 24usize..200];
        let mode = || prop_oneof![3 => Just(Mode::Next), 1 => Just(Mode::Sets), 1 => Just(Mode::Records)];
        let fa = (0u8..4, vec(fa_rec, 0..6), 0u8..3, any::<bool>(), prop_oneof![3 => Just(vec![true]), 2 => vec(any::<bool>(), 1..7)], caps(), caps(), mode(), crate::gen::script())
            .prop_map(|(lead, recs, trail, final_term, crlf_pattern, cap_a, cap_b, mode, script_b)| Case {
                format: Format::Fasta,
                lead,
                recs,
                trail,
                final_term,
                crlf_pattern,
                cap_a,
                cap_b,
                mode,
                script_b,
            });
        let fq = (vec(fq_rec, 0..6), 0u8..3, any::<bool>(), caps(), caps(), mode(), crate::gen::script()).prop_map(
            |(recs, trail, final_term, cap_a, cap_b, mode, script_b)| Case {
                format: Format::Fastq,
                lead: 0,
                recs,
                trail,
                final_term,
                crlf_pattern: vec![true],
                cap_a,
                cap_b,
                mode,
                script_b,
            },
        );
        boxed(prop_oneof![fa, fq])
    }

    fn check(&self, c: &Case, ctx: &mut Ctx) -> CheckResult {
        check_case(c, ctx)
    }
}

pub fn check_case(c: &Case, ctx: &mut Ctx) -> CheckResult {
    let f = crate::light::fmt_name(c.format);
    let lf = render(c, &[]);
    let other = render(c, &c.crlf_pattern);
    let max = c.recs.len() + 6;
    let ra = read_all(c.format, &lf, c.cap_a, PolKind::Std, &Script::default(), c.mode, max);
    let rb = read_all(c.format, &other, c.cap_b, PolKind::Std, &c.script_b, c.mode, max);
    if !c.recs.is_empty() && lf.len() != other.len() {
        ctx.nontrivial(c, c);
    }
    if c.crlf_pattern.iter().all(|b| *b) {
        ctx.class("pure CRLF rendering");
    } else {
        ctx.class("per-line mixture");
    }
    if c.format == Format::Fastq && !c.final_term && !c.recs.is_empty() {
        ctx.class("FASTQ CRLF without final terminator");
    }
    if !c.final_term {
        ctx.class("no final terminator");
    }
    if (0..other.len()).any(|i| other[i] == b'\r' && (i + 1) % c.cap_b == 0) {
        ctx.class("a CR sits on the last byte of a buffer window");
    }
    // metamorphic relation
    if ra.outs != rb.outs {
        let i = (0..ra.outs.len().max(rb.outs.len())).find(|&i| ra.outs.get(i) != rb.outs.get(i)).unwrap();
        fail!(
            format!("{}/lf-vs-crlf/outcome-differs", f),
            "item {}: LF version -> {:?}, other version -> {:?}\n  LF input:    {:?}\n  other input: {:?}",
            i,
            ra.outs.get(i),
            rb.outs.get(i),
            B(lf.clone()),
            B(other.clone())
        );
    }
    for i in 0..ra.pos.len().min(rb.pos.len()) {
        if let (Some(a), Some(b), Some(Out::Rec(_))) = (ra.pos[i], rb.pos[i], ra.outs.get(i)) {
            ensure!(
                a.0 == b.0,
                format!("{}/lf-vs-crlf/line-number-differs", f),
                "item {}: line number {} in the LF version, {} in the other version",
                i,
                a.0,
                b.0
            );
        }
    }
    // round trip: both parse back to the structure (no error appears, nothing is lost)
    let flatten = c.mode == Mode::Records;
    let mut exp: Vec<Out> = c
        .recs
        .iter()
        .map(|r| {
            let n = NRec { head: r.head.clone(), lines: r.lines.clone(), qual: r.qual.clone() };
            Out::Rec(if flatten { crate::driver::flat(&n) } else { n })
        })
        .collect();
    if c.format == Format::Fasta && (c.final_term || c.recs.is_empty()) && c.trail > 0 {
        // FASTA: trailing blank lines are (empty) sequence lines of the last record
        if let Some(Out::Rec(r)) = exp.last_mut() {
            if flatten {
                // concatenation is unchanged
            } else {
                for _ in 0..c.trail {
                    r.lines.push(B(vec![]));
                }
            }
        }
    }
    if c.format == Format::Fasta && !c.final_term && !flatten {
        // an empty last line without terminator does not exist in the rendered bytes
        if let Some(Out::Rec(r)) = exp.last_mut() {
            if r.lines.last().map_or(false, |l| l.is_empty()) {
                r.lines.pop();
            }
        }
    }
    exp.push(Out::End);
    exp.push(Out::End);
    exp.push(Out::End);
    let got: Vec<Out> = ra
        .outs
        .iter()
        .map(|o| match o {
            Out::Rec(r) if flatten => Out::Rec(crate::driver::flat(r)),
            x => x.clone(),
        })
        .collect();
    if got != exp {
        let i = (0..got.len().max(exp.len())).find(|&i| got.get(i) != exp.get(i)).unwrap();
        fail!(
            format!("{}/render-parse/{}", f, if matches!(got.get(i), Some(Out::Err(_))) { "error-appears" } else { "mismatch" }),
            "item {}: parsed {:?}, rendered structure has {:?}\n  input: {:?}",
            i,
            got.get(i),
            exp.get(i),
            B(lf.clone())
        );
    }
    // the whole-sequence views of FASTA records (full_seq / owned_seq / owned record) must agree between the
    // renderings as well, and contain no CR
    if c.format == Format::Fasta {
        let views = |text: &[u8], cap: usize| -> Vec<(Vec<u8>, Vec<u8>, Vec<u8>)> {
            use seq_io::fasta::Record;
            let mut rdr = seq_io::fasta::Reader::with_capacity(text, cap);
            let mut v = Vec::new();
            while let Some(Ok(r)) = rdr.next() {
                let o = r.to_owned_record();
                v.push((r.full_seq().to_vec(), r.owned_seq(), o.seq().to_vec()));
            }
            v
        };
        let va = views(&lf, c.cap_a);
        let vb = views(&other, c.cap_b);
        ensure!(
            va == vb,
            format!("{}/lf-vs-crlf/full-sequence-differs", f),
            "full_seq()/owned_seq()/owned record sequence differ between the renderings: LF {:?} vs other {:?}",
            va.iter().map(|x| (B(x.0.clone()), B(x.1.clone()), B(x.2.clone()))).collect::<Vec<_>>(),
            vb.iter().map(|x| (B(x.0.clone()), B(x.1.clone()), B(x.2.clone()))).collect::<Vec<_>>()
        );
        for (i, x) in vb.iter().enumerate() {
            ensure!(
                !x.0.contains(&b'\r') && !x.1.contains(&b'\r') && !x.2.contains(&b'\r'),
                format!("{}/carriage-return-in-field", f),
                "record {}: a whole-sequence view contains CR: full_seq {:?}, owned_seq {:?}, owned record {:?}",
                i,
                B(x.0.clone()),
                B(x.1.clone()),
                B(x.2.clone())
            );
        }
    }
    // every accessor, for records taken from next() and from record sets: identical between the renderings
    {
        fn enc_opt(o: Option<&[u8]>) -> Vec<u8> {
            match o {
                None => b"<none>".to_vec(),
                Some(x) => [b"some:", x].concat(),
            }
        }
        fn enc_res(r: Result<&str, std::str::Utf8Error>) -> Vec<u8> {
            match r {
                Ok(x) => [b"ok:", x.as_bytes()].concat(),
                Err(_) => b"<utf8-error>".to_vec(),
            }
        }
        macro_rules! header_views {
            ($r:expr) => {{
                let r = $r;
                let (i2, d2) = r.id_desc_bytes();
                let idd = match r.id_desc() {
                    Ok((i, d)) => [b"ok:", i.as_bytes(), b"|", &enc_opt(d.map(|x| x.as_bytes()))[..]].concat(),
                    Err(_) => b"<utf8-error>".to_vec(),
                };
                vec![
                    r.head().to_vec(),
                    r.id_bytes().to_vec(),
                    enc_opt(r.desc_bytes()),
                    enc_res(r.id()),
                    match r.desc() {
                        None => b"<none>".to_vec(),
                        Some(x) => enc_res(x),
                    },
                    i2.to_vec(),
                    enc_opt(d2),
                    idd,
                ]
            }};
        }
        let fa_views = |r: &seq_io::fasta::RefRecord| -> Vec<Vec<u8>> {
            use seq_io::fasta::Record;
            let mut v = header_views!(r);
            v.push(r.seq_lines().collect::<Vec<_>>().join(&b'|'));
            v.push(r.seq_lines().fold(Vec::new(), |mut a: Vec<u8>, l| {
                a.extend_from_slice(l);
                a.push(b'|');
                a
            }));
            v.push(r.seq_lines().rev().collect::<Vec<_>>().join(&b'|'));
            v.push(r.full_seq().to_vec());
            v.push(r.owned_seq());
            let o = r.to_owned_record();
            v.extend(header_views!(&o));
            v.push(o.seq().to_vec());
            v.push(r.num_seq_lines().to_string().into_bytes());
            v
        };
        let fq_views = |r: &seq_io::fastq::RefRecord| -> Vec<Vec<u8>> {
            use seq_io::fastq::Record;
            let mut v = header_views!(r);
            v.push(r.seq().to_vec());
            v.push(r.qual().to_vec());
            let o = r.to_owned_record();
            v.extend(header_views!(&o));
            v.push(o.seq().to_vec());
            v.push(o.qual().to_vec());
            v
        };
        let all = |text: &[u8], cap: usize, via_sets: bool| -> Vec<Vec<Vec<u8>>> {
            let mut out = Vec::new();
            match (c.format, via_sets) {
                (Format::Fasta, false) => {
                    let mut rdr = seq_io::fasta::Reader::with_capacity(text, cap);
                    while let Some(Ok(r)) = rdr.next() {
                        out.push(fa_views(&r));
                    }
                }
                (Format::Fasta, true) => {
                    let mut rdr = seq_io::fasta::Reader::with_capacity(text, cap);
                    let mut set = seq_io::fasta::RecordSet::default();
                    while let Some(Ok(())) = rdr.read_record_set(&mut set) {
                        for r in &set {
                            out.push(fa_views(&r));
                        }
                    }
                }
                (Format::Fastq, false) => {
                    let mut rdr = seq_io::fastq::Reader::with_capacity(text, cap);
                    while let Some(Ok(r)) = rdr.next() {
                        out.push(fq_views(&r));
                    }
                }
                (Format::Fastq, true) => {
                    let mut rdr = seq_io::fastq::Reader::with_capacity(text, cap);
                    let mut set = seq_io::fastq::RecordSet::default();
                    while let Some(Ok(())) = rdr.read_record_set(&mut set) {
                        for r in &set {
                            out.push(fq_views(&r));
                        }
                    }
                }
            }
            out
        };
        for via_sets in [false, true] {
            let va = all(&lf, c.cap_a, via_sets);
            let vb = all(&other, c.cap_b, via_sets);
            if va != vb {
                let i = (0..va.len().max(vb.len())).find(|&i| va.get(i) != vb.get(i)).unwrap();
                let j = match (va.get(i), vb.get(i)) {
                    (Some(a), Some(b)) => (0..a.len().max(b.len())).find(|&j| a.get(j) != b.get(j)).unwrap_or(0),
                    _ => 0,
                };
                fail!(
                    format!("{}/lf-vs-crlf/accessor-differs", f),
                    "record {} ({}), accessor #{}: LF version {:?}, other version {:?}",
                    i,
                    if via_sets { "from a record set" } else { "from next()" },
                    j,
                    va.get(i).and_then(|a| a.get(j)).map(|x| B(x.clone())),
                    vb.get(i).and_then(|a| a.get(j)).map(|x| B(x.clone()))
                );
            }
        }
    }
    for o in rb.outs.iter() {
        if let Out::Rec(r) = o {
            let cr = r.head.contains(&b'\r') || r.lines.iter().any(|l| l.contains(&b'\r')) || r.qual.as_ref().map_or(false, |q| q.contains(&b'\r'));
            ensure!(!cr, format!("{}/carriage-return-in-field", f), "a returned field contains CR: {:?}", r);
        }
    }
    Ok(())
}

pub const RULE: &str = "(every accessor - head, id / desc as bytes and text, id_desc, sequence lines by next(), by fold() and reversed, full_seq, owned_seq, owned record views, seq, qual - of every record from next() and from record sets is compared between the two renderings as well) cases = well-formed structure (FASTA: 0..3 leading blank lines, 0..5 records, header-only records, blank lines inside records, 0..2 trailing blank lines; FASTQ: 0..5 valid records whose separator line is a bare '+', '+' with text or '+' with the repeated header, 0..2 trailing blank lines; fields free of CR/LF) rendered twice: all-LF and {all-CRLF | FASTA: per-line mixture}, with/without final terminator, read with two generated capacities (B also with a chunk script) in next / record-set / records() mode. Oracle: identical outcomes (records, terminal), identical line numbers, identical whole-sequence views (full_seq, owned_seq, owned record), no CR in any field, and both equal the structure they were rendered from (so no error appears or disappears). Exhaustive sub-check over tiny structures x capacities 3..10. Non-trivial = >= 1 record and the two renderings differ. Distinct = hash(case).";

pub fn run(tier: Tier) -> i32 {
    let mut run = Run::new("C12", tier, "exploration");
    let p = LineEndings;
    run.replays("lf-crlf-metamorphic", &p);
    run.generated("lf-crlf-metamorphic", &p, tier.pick(400_000, 3_000_000));
    // exhaustive tiny structures
    let max_cap = if tier == Tier::Quick { 8 } else { 12 };
    run.exhaustive("tiny-structures", "FASTA: lead 0..=2 x up to 2 records (head in {'', 'a'}, 0..=2 lines in {'', 'A', 'AC'}) x final terminator x trail 0..=1; FASTQ: up to 2 records (head in {'', 'a'}, seq in {'', 'A', 'AC'}) x final terminator x trail 0..=2; LF vs CRLF; capacities 3..=N both sides", |ctx| {
        let heads: [&[u8]; 2] = [b"", b"a"];
        let lines: [&[u8]; 3] = [b"", b"A", b"AC"];
        let mut line_lists: Vec<Vec<B>> = vec![vec![]];
        for a in lines {
            line_lists.push(vec![B::new(a)]);
            for b in lines {
                line_lists.push(vec![B::new(a), B::new(b)]);
            }
        }
        let mut fa_recs: Vec<RecS> = Vec::new();
        for h in heads {
            for ll in &line_lists {
                fa_recs.push(RecS { head: B::new(h), lines: ll.clone(), qual: None, sep: None });
            }
        }
        let mut fq_recs: Vec<RecS> = Vec::new();
        for h in heads {
            for s in lines {
                fq_recs.push(RecS { head: B::new(h), lines: vec![B::new(s)], qual: Some(B(vec![b'I'; s.len()])), sep: None });
            }
        }
        let mut cases: Vec<Case> = Vec::new();
        let mk = |format, lead, recs: Vec<RecS>, trail, final_term| Case {
            format,
            lead,
            recs,
            trail,
            final_term,
            crlf_pattern: vec![true],
            cap_a: 3,
            cap_b: 3,
            mode: Mode::Next,
            script_b: Script::default(),
        };
        for lead in 0..=2u8 {
            for ft in [true, false] {
                for trail in 0..=1u8 {
                    cases.push(mk(Format::Fasta, lead, vec![], trail, ft));
                    for a in &fa_recs {
                        cases.push(mk(Format::Fasta, lead, vec![a.clone()], trail, ft));
                        if lead <= 1 && trail == 0 {
                            for b in &fa_recs {
                                cases.push(mk(Format::Fasta, lead, vec![a.clone(), b.clone()], trail, ft));
                            }
                        }
                    }
                }
            }
        }
        for ft in [true, false] {
            for trail in 0..=2u8 {
                cases.push(mk(Format::Fastq, 0, vec![], trail, ft));
                for a in &fq_recs {
                    cases.push(mk(Format::Fastq, 0, vec![a.clone()], trail, ft));
                    for b in &fq_recs {
                        cases.push(mk(Format::Fastq, 0, vec![a.clone(), b.clone()], trail, ft));
                    }
                }
            }
        }
        for base in cases {
            for cap_a in [3usize, 4, 7] {
                for cap_b in 3..=max_cap {
                    let mut c = base.clone();
                    c.cap_a = cap_a;
                    c.cap_b = cap_b;
                    ctx.eval();
                    let mut scratch = Ctx::new(false);
                    if let Err(f) = crate::engine::guarded(|| check_case(&c, &mut scratch)) {
                        return Err((serde_json::to_value(&c).unwrap(), f));
                    }
                    if !c.recs.is_empty() {
                        ctx.nontrivial(&c, &c);
                    }
                }
            }
        }
        Ok(())
    });
    run.finish(RULE, &["well-formed = the structures this check renders (fields free of CR and LF, FASTQ blank tail within the documented tolerance of the reader)"])
}

pub fn replay(run: &mut Run, file: &std::path::Path) -> Option<bool> {
    run.replay_file("lf-crlf-metamorphic", &LineEndings, file, true).or_else(|| run.replay_file("tiny-structures", &LineEndings, file, true))
}
