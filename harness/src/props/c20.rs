//! C20 — iterators handed out by the library obey the iterator contracts at every step.
//! Model = Vec of the expected items with two indices. (DESIGN.md §4 C20)

use crate::engine::{boxed, CheckResult, Ctx, Failure, Prop, Run, Tier};
use crate::gen;
use crate::model::{Format, Model};
use crate::util::B;
use crate::{ensure, fail};
use proptest::collection::vec;
use proptest::prelude::*;
use seq_io::{fasta, fastq};
use serde_derive::{Deserialize, Serialize};
use serde_json::json;

#[derive(Clone, Debug, Serialize, Deserialize, Hash)]
pub struct Case {
    /// the sequence lines of one FASTA record (may be empty strings; no LF / CR inside)
    pub lines: Vec<B>,
    pub crlf: bool,
    pub final_term: bool,
    /// operations applied to one iterator, continuing past its end
    pub steps: Vec<StepOp>,
    pub skip: u8,
}

#[derive(Clone, Copy, Debug, Serialize, Deserialize, Hash, PartialEq, Eq)]
pub enum StepOp {
    /// next()
    Front,
    /// next_back()
    Back,
    /// nth(k)
    Nth(u8),
    /// nth_back(k)
    NthBack(u8),
}

pub struct SeqLinesContract;

fn render(lines: &[B], crlf: bool, final_term: bool) -> Vec<u8> {
    let mut v = b">id desc".to_vec();
    let t: &[u8] = if crlf { b"\r\n" } else { b"\n" };
    v.extend_from_slice(t);
    for l in lines {
        v.extend_from_slice(l);
        v.extend_from_slice(t);
    }
    v.extend_from_slice(b">next");
    v.extend_from_slice(t);
    if !final_term {
        // the record under test is followed by another one, so this only affects that one
        v.truncate(v.len() - t.len());
    }
    v
}

fn check_hint(what: &str, step: usize, hint: (usize, Option<usize>), len: Option<usize>, truth: usize) -> CheckResult {
    ensure!(
        hint.0 <= truth && hint.1.map_or(true, |u| u >= truth),
        format!("{}/size-hint-does-not-bracket", what),
        "after step {}: size_hint() = {:?} but {} item(s) are still to come",
        step,
        hint,
        truth
    );
    if let Some(l) = len {
        ensure!(
            l == truth,
            format!("{}/len-wrong", what),
            "after step {}: len() = {} but {} item(s) are still to come",
            step,
            l,
            truth
        );
    }
    if let (lo, Some(hi)) = hint {
        if lo == hi {
            ensure!(
                lo == truth,
                format!("{}/exact-size-hint-wrong", what),
                "after step {}: size_hint() = ({}, Some({})) claims an exact length but {} item(s) are still to come",
                step,
                lo,
                hi,
                truth
            );
        }
    }
    Ok(())
}

pub fn check_seq_lines(c: &Case, ctx: &mut Ctx) -> CheckResult {
    let text = render(&c.lines, c.crlf, c.final_term);
    let mut rdr = fasta::Reader::with_capacity(&text[..], 4096);
    let rec = match rdr.next() {
        Some(Ok(r)) => r,
        other => fail!("seq_lines/setup", "could not parse the generated record: {:?}", other.map(|r| r.map(|_| ()))),
    };
    let exp: Vec<&[u8]> = c.lines.iter().map(|l| &l.0[..]).collect();
    let n = exp.len();
    // 1. step program with two indices
    let mut it = rec.seq_lines();
    let (mut lo, mut hi) = (0usize, n);
    check_hint("seq_lines", 0, it.size_hint(), Some(it.len()), n)?;
    let mut ended = false;
    for (i, &op) in c.steps.iter().enumerate() {
        let got = match op {
            StepOp::Front => it.next(),
            StepOp::Back => it.next_back(),
            StepOp::Nth(k) => it.nth(k as usize),
            StepOp::NthBack(k) => it.nth_back(k as usize),
        };
        let want = match op {
            StepOp::Front => {
                if lo < hi {
                    lo += 1;
                    Some(exp[lo - 1])
                } else {
                    None
                }
            }
            StepOp::Back => {
                if lo < hi {
                    hi -= 1;
                    Some(exp[hi])
                } else {
                    None
                }
            }
            StepOp::Nth(k) => {
                let k = k as usize;
                if lo + k < hi {
                    lo += k + 1;
                    Some(exp[lo - 1])
                } else {
                    lo = hi; // nth() past the end consumes everything
                    None
                }
            }
            StepOp::NthBack(k) => {
                let k = k as usize;
                if hi - lo > k {
                    hi -= k + 1;
                    Some(exp[hi])
                } else {
                    hi = lo;
                    None
                }
            }
        };
        ensure!(
            got == want,
            if ended && got.is_some() { "seq_lines/item-after-end".to_string() } else { "seq_lines/wrong-item".to_string() },
            "step {} ({:?}): got {:?}, expected {:?}",
            i + 1,
            op,
            got.map(B::new),
            want.map(B::new)
        );
        if want.is_none() {
            ended = true;
        }
        check_hint("seq_lines", i + 1, it.size_hint(), Some(it.len()), hi - lo)?;
    }
    if ended {
        ctx.class("stepped past the end");
    }
    if c.steps.iter().any(|s| matches!(s, StepOp::Front | StepOp::Nth(_))) && c.steps.iter().any(|s| matches!(s, StepOp::Back | StepOp::NthBack(_))) {
        ctx.class("both ends used");
    }
    if c.steps.iter().any(|s| matches!(s, StepOp::Nth(_) | StepOp::NthBack(_))) {
        ctx.class("nth / nth_back used");
    }
    // 2. adaptor programs, compared with the same adaptors over the model vector
    let k = c.skip as usize;
    let a: Vec<(usize, &[u8])> = rec.seq_lines().enumerate().rev().collect();
    let b: Vec<(usize, &[u8])> = exp.iter().cloned().enumerate().rev().collect();
    ensure!(a == b, "seq_lines/enumerate-rev", "enumerate().rev() gave {:?}, expected {:?}", dbg_pairs(&a), dbg_pairs(&b));
    let a: Vec<&[u8]> = rec.seq_lines().rev().collect();
    let b: Vec<&[u8]> = exp.iter().cloned().rev().collect();
    ensure!(a == b, "seq_lines/rev", "rev() gave {:?}, expected {:?}", dbg_items(&a), dbg_items(&b));
    let a: Vec<(usize, &[u8])> = rec.seq_lines().rev().enumerate().collect();
    let b: Vec<(usize, &[u8])> = exp.iter().cloned().rev().enumerate().collect();
    ensure!(a == b, "seq_lines/rev-enumerate", "rev().enumerate() gave {:?}, expected {:?}", dbg_pairs(&a), dbg_pairs(&b));
    let a: Vec<&[u8]> = rec.seq_lines().skip(k).collect();
    let b: Vec<&[u8]> = exp.iter().cloned().skip(k).collect();
    ensure!(a == b, "seq_lines/skip", "skip({}) gave {:?}, expected {:?}", k, dbg_items(&a), dbg_items(&b));
    let sk = rec.seq_lines().skip(k);
    check_hint("seq_lines/skip", 0, sk.size_hint(), Some(sk.len()), n.saturating_sub(k))?;
    // an adaptor driven to its end stays at the end, and so does the underlying iterator
    let mut sk = rec.seq_lines().skip(k);
    let mut yielded = 0;
    while sk.next().is_some() {
        yielded += 1;
        ensure!(yielded <= n, "seq_lines/skip-endless", "skip({}) yields more than {} items", k, n);
    }
    for _ in 0..2 {
        check_hint("seq_lines/skip-after-end", yielded, sk.size_hint(), Some(sk.len()), 0)?;
        ensure!(sk.next().is_none(), "seq_lines/skip/item-after-end", "skip({}) returned an item after it had reported the end", k);
    }
    let mut it2 = rec.seq_lines();
    let first_none = it2.nth(n + k);
    ensure!(first_none.is_none(), "seq_lines/nth-past-end", "nth({}) on {} lines returned an item", n + k, n);
    check_hint("seq_lines/after-nth-past-end", 1, it2.size_hint(), Some(it2.len()), 0)?;
    ensure!(it2.next().is_none() && it2.next_back().is_none(), "seq_lines/item-after-end", "after nth() past the end had returned None, the iterator yields items again");
    let a: Vec<&[u8]> = rec.seq_lines().step_by(k + 1).collect();
    let b: Vec<&[u8]> = exp.iter().cloned().step_by(k + 1).collect();
    ensure!(a == b, "seq_lines/step_by", "step_by({}) gave {:?}, expected {:?}", k + 1, dbg_items(&a), dbg_items(&b));
    let a: Vec<&[u8]> = rec.seq_lines().take(k).collect();
    let b: Vec<&[u8]> = exp.iter().cloned().take(k).collect();
    ensure!(a == b, "seq_lines/take", "take({}) gave {:?}, expected {:?}", k, dbg_items(&a), dbg_items(&b));
    let a: Vec<&[u8]> = rec.seq_lines().rev().skip(k).collect();
    let b: Vec<&[u8]> = exp.iter().cloned().rev().skip(k).collect();
    ensure!(a == b, "seq_lines/rev-skip", "rev().skip({}) gave {:?}, expected {:?}", k, dbg_items(&a), dbg_items(&b));
    let a: Vec<(&[u8], &[u8])> = rec.seq_lines().zip(rec.seq_lines().rev()).collect();
    let b: Vec<(&[u8], &[u8])> = exp.iter().cloned().zip(exp.iter().cloned().rev()).collect();
    ensure!(a == b, "seq_lines/zip", "zip(rev) gave {} pairs, expected {}", a.len(), b.len());
    let z = rec.seq_lines().zip(0..k);
    check_hint("seq_lines/zip", 0, z.size_hint(), None, n.min(k))?;
    // rev() after partial consumption from the front
    let mut it = rec.seq_lines();
    let taken = k.min(n);
    for _ in 0..taken {
        it.next();
    }
    let a: Vec<(usize, &[u8])> = it.enumerate().rev().collect();
    let b: Vec<(usize, &[u8])> = exp[taken..].iter().cloned().enumerate().rev().collect();
    ensure!(a == b, "seq_lines/enumerate-rev-after-advance", "after {} next(): enumerate().rev() gave {:?}, expected {:?}", taken, dbg_pairs(&a), dbg_pairs(&b));
    ensure!(rec.num_seq_lines() == n, "seq_lines/num_seq_lines", "num_seq_lines() = {}, expected {}", rec.num_seq_lines(), n);
    ensure!(rec.seq_lines().count() == n, "seq_lines/count", "count() = {}, expected {}", rec.seq_lines().count(), n);
    ensure!(rec.seq_lines().last() == exp.last().cloned(), "seq_lines/last", "last() wrong");
    // internal iteration (fold / try_fold based adaptors) must see the same items as next() / next_back()
    let a: Vec<&[u8]> = rec.seq_lines().fold(Vec::new(), |mut v, l| {
        v.push(l);
        v
    });
    ensure!(a == exp, "seq_lines/fold", "fold() visited {:?}, expected {:?}", dbg_items(&a), dbg_items(&exp));
    let a: Vec<&[u8]> = rec.seq_lines().rfold(Vec::new(), |mut v, l| {
        v.push(l);
        v
    });
    let b: Vec<&[u8]> = exp.iter().cloned().rev().collect();
    ensure!(a == b, "seq_lines/rfold", "rfold() visited {:?}, expected {:?}", dbg_items(&a), dbg_items(&b));
    let mut a: Vec<&[u8]> = Vec::new();
    rec.seq_lines().for_each(|l| a.push(l));
    ensure!(a == exp, "seq_lines/for_each", "for_each() visited {:?}, expected {:?}", dbg_items(&a), dbg_items(&exp));
    let mut a: Vec<&[u8]> = Vec::new();
    rec.seq_lines().rev().for_each(|l| a.push(l));
    ensure!(a == b, "seq_lines/rev-for_each", "rev().for_each() visited {:?}, expected {:?}", dbg_items(&a), dbg_items(&b));
    let total: usize = rec.seq_lines().map(|l| l.len()).sum();
    ensure!(total == exp.iter().map(|l| l.len()).sum::<usize>(), "seq_lines/sum", "sum of line lengths = {}, expected {}", total, exp.iter().map(|l| l.len()).sum::<usize>());
    ensure!(rec.seq_lines().max_by_key(|l| l.len()).map(|l| l.len()) == exp.iter().max_by_key(|l| l.len()).map(|l| l.len()), "seq_lines/max_by_key", "longest line differs");
    ensure!(rec.seq_lines().min() == exp.iter().cloned().min(), "seq_lines/min", "min() differs");
    ensure!(rec.seq_lines().position(|l| l.is_empty()) == exp.iter().position(|l| l.is_empty()), "seq_lines/position", "position(is_empty) differs");
    ensure!(rec.seq_lines().rposition(|l| l.is_empty()) == exp.iter().rposition(|l| l.is_empty()), "seq_lines/rposition", "rposition(is_empty) differs");
    ensure!(rec.seq_lines().all(|l| !l.contains(&b'\r') && !l.contains(&b'\n')), "seq_lines/all", "a line seen through all() contains a line terminator");
    if let Some(last) = exp.last() {
        ensure!(rec.seq_lines().find(|l| l == last) == exp.iter().cloned().find(|l| l == last), "seq_lines/find", "find() differs");
        ensure!(rec.seq_lines().rfind(|l| l == last) == Some(*last), "seq_lines/rfind", "rfind() differs");
    }
    let a: Vec<&[u8]> = rec.seq_lines().chain(rec.seq_lines().rev()).collect();
    let b2: Vec<&[u8]> = exp.iter().cloned().chain(exp.iter().cloned().rev()).collect();
    ensure!(a == b2, "seq_lines/chain", "chain() differs");
    let (ev, od): (Vec<&[u8]>, Vec<&[u8]>) = rec.seq_lines().partition(|l| l.len() % 2 == 0);
    let (ev2, od2): (Vec<&[u8]>, Vec<&[u8]>) = exp.iter().cloned().partition(|l| l.len() % 2 == 0);
    ensure!(ev == ev2 && od == od2, "seq_lines/partition", "partition() differs");
    let mut pk = rec.seq_lines().peekable();
    let first = pk.peek().cloned();
    ensure!(first == exp.first().cloned() && pk.next() == first && pk.count() == n.saturating_sub(1), "seq_lines/peekable", "peekable() differs");
    Ok(())
}

fn dbg_pairs(v: &[(usize, &[u8])]) -> Vec<(usize, B)> {
    v.iter().map(|(i, b)| (*i, B::new(b))).collect()
}
fn dbg_items(v: &[&[u8]]) -> Vec<B> {
    v.iter().map(|b| B::new(b)).collect()
}

impl Prop for SeqLinesContract {
    type Case = Case;
    fn strategy(&self, _tier: Tier) -> BoxedStrategy<Case> {
        let line = prop_oneof![1 => Just(vec![]), 5 => vec(prop::sample::select(&b"ACGTN "[..]), 1..12)].prop_map(B);
        boxed(
            (vec(line, 0..9), any::<bool>(), any::<bool>(), vec(prop_oneof![5 => Just(StepOp::Front), 4 => Just(StepOp::Back), 2 => (0u8..10).prop_map(StepOp::Nth), 2 => (0u8..10).prop_map(StepOp::NthBack)], 0..13), 0u8..10)
                .prop_map(|(lines, crlf, final_term, steps, skip)| Case { lines, crlf, final_term, steps, skip }),
        )
    }
    fn check(&self, c: &Case, ctx: &mut Ctx) -> CheckResult {
        if c.lines.len() >= 2 && !c.steps.is_empty() {
            ctx.nontrivial(c, c);
        }
        ctx.class(&format!("lines: {}", match c.lines.len() { 0 => "0", 1 => "1", 2..=4 => "2-4", _ => "5+" }));
        check_seq_lines(c, ctx)
    }
}

// ------------------------------------------------------------------------------------------------
// record-set iterators and owned-record iterators

#[derive(Clone, Debug, Serialize, Deserialize, Hash)]
pub struct SetCase {
    pub format: Format,
    pub input: B,
    pub cap: usize,
    /// how many extra next() calls after the end
    pub extra: u8,
    /// what happens on the reader before the owned-record iterator is created:
    /// (kind, k, j): 0 = nothing; 1 = k next() calls; 2 = read_record_set_exact(k); 3 = k next() calls, then seek
    /// back to the position of the j-th of them
    #[serde(default)]
    pub pre: (u8, u8, u8),
    /// steps on the iterator: (false, _) = next(), (true, k) = nth(k)
    #[serde(default)]
    pub steps: Vec<(bool, u8)>,
    /// the rest is consumed through skip(a).step_by(b + 1)
    #[serde(default)]
    pub tail: (u8, u8),
}

pub struct OtherIterators;

/// The items an owned-record iterator must yield: records (flat) then at most one error.
#[derive(Clone, Debug, PartialEq, Eq)]
enum Item {
    Rec(Vec<u8>, Vec<u8>, Option<Vec<u8>>),
    Err,
}

/// Drives an iterator with next() / nth(k) steps and then skip(a).step_by(b+1), comparing every returned item and
/// the size hint after every step with the expected item list.
fn drive<I: Iterator>(what: &str, mut it: I, exp: &[Item], steps: &[(bool, u8)], tail: (u8, u8), conv: &dyn Fn(I::Item) -> Item) -> CheckResult {
    let mut pos = 0usize;
    check_hint(what, 0, it.size_hint(), None, exp.len())?;
    for (si, (is_nth, k)) in steps.iter().enumerate() {
        let (got, want) = if *is_nth {
            let k = *k as usize;
            let w = exp.get(pos + k).cloned();
            pos = (pos + k + 1).min(exp.len());
            (it.nth(k).map(conv), w)
        } else {
            let w = exp.get(pos).cloned();
            pos = (pos + 1).min(exp.len());
            (it.next().map(conv), w)
        };
        ensure!(
            got == want,
            format!("{}/{}-item", what, if *is_nth { "nth" } else { "next" }),
            "step {} ({}): returned {:?}, the item sequence {:?} requires {:?}",
            si,
            if *is_nth { format!("nth({})", k) } else { "next()".to_string() },
            got,
            exp,
            want
        );
        check_hint(what, si + 1, it.size_hint(), None, exp.len() - pos)?;
    }
    let (a, b) = (tail.0 as usize, tail.1 as usize + 1);
    let rest: Vec<Item> = it.skip(a).step_by(b).map(conv).collect();
    let want: Vec<Item> = exp[pos..].iter().skip(a).step_by(b).cloned().collect();
    ensure!(rest == want, format!("{}/skip-step_by", what), "after {} steps: skip({}).step_by({}) yields {:?}, the item sequence {:?} (from index {}) requires {:?}", steps.len(), a, b, rest, exp, pos, want);
    Ok(())
}

fn walk<I: Iterator>(what: &str, mut it: I, n: usize, extra: usize) -> CheckResult {
    check_hint(what, 0, it.size_hint(), None, n)?;
    for i in 0..n {
        ensure!(it.next().is_some(), format!("{}/ended-early", what), "item {} of {} missing", i, n);
        check_hint(what, i + 1, it.size_hint(), None, n - i - 1)?;
    }
    for j in 0..extra + 1 {
        ensure!(
            it.next().is_none(),
            format!("{}/item-after-end", what),
            "next() call {} after the end returned an item",
            j + 1
        );
        check_hint(what, n + j + 1, it.size_hint(), None, 0)?;
    }
    Ok(())
}

impl Prop for OtherIterators {
    type Case = SetCase;
    fn strategy(&self, _tier: Tier) -> BoxedStrategy<SetCase> {
        let per = |f: Format| {
            let input = match f {
                Format::Fasta => gen::fasta_doc_with(6, 4),
                Format::Fastq => gen::fastq_doc_with(6, false),
            };
            let pre = prop_oneof![2 => Just((0u8, 0u8, 0u8)), 1 => (1u8..4, 0u8..7, 0u8..7)];
            let steps = vec((prop::bool::weighted(0.4), prop_oneof![4 => 0u8..3, 1 => 3u8..9]), 0..8);
            (input, 3usize..200, 0u8..4, pre, steps, (0u8..4, 0u8..3)).prop_map(move |(input, cap, extra, pre, steps, tail)| SetCase { format: f, input, cap, extra, pre, steps, tail })
        };
        boxed(prop_oneof![per(Format::Fasta), per(Format::Fastq)])
    }
    fn check(&self, c: &SetCase, ctx: &mut Ctx) -> CheckResult {
        let m = Model::build(c.format, &c.input);
        let extra = c.extra as usize;
        if m.recs.len() >= 2 {
            ctx.nontrivial(c, c);
        }
        // number of items the owned iterators yield: records (+1 for a terminal error); an out-of-domain
        // group makes the count unknown -> only the fused behaviour is checked then
        let known = !matches!(m.term, crate::model::Terminal::Unspecified);
        let n_items = m.recs.len() + if matches!(m.term, crate::model::Terminal::Err(_)) { 1 } else { 0 };
        if known {
            let mut exp: Vec<Item> = m.recs.iter().map(|r| { let f = crate::driver::flat(&r.rec); Item::Rec(f.head.0.clone(), f.lines.iter().flat_map(|l| l.0.clone()).collect(), f.qual.as_ref().map(|q| q.0.clone())) }).collect();
            if matches!(m.term, crate::model::Terminal::Err(_)) {
                exp.push(Item::Err);
            }
            macro_rules! driven {
                ($modname:ident, $name:expr, $pos:expr, $conv:expr) => {{
                    use $modname::Record;
                    for into in [false, true] {
                        let mut rdr = $modname::Reader::with_capacity(std::io::Cursor::new(&c.input[..]), c.cap);
                        // the prefix consumes only records (never the terminal error)
                        let k = (c.pre.1 as usize).min(m.recs.len());
                        let mut start = 0usize;
                        match c.pre.0 {
                            1 | 3 if k > 0 => {
                                let mut positions = Vec::new();
                                for i in 0..k {
                                    match rdr.next() {
                                        Some(Ok(r)) => {
                                            let _ = r.head();
                                        }
                                        _ => fail!(format!("{}/prefix", $name), "record {} could not be read", i),
                                    }
                                    positions.push($pos(&rdr));
                                }
                                start = k;
                                if c.pre.0 == 3 {
                                    let j = (c.pre.2 as usize) % k;
                                    ensure!(rdr.seek(&positions[j]).is_ok(), format!("{}/prefix", $name), "seek to record {} failed", j);
                                    start = j;
                                    ctx.class("owned iterator created right after a seek");
                                } else {
                                    ctx.class("owned iterator created after next() calls");
                                }
                            }
                            2 if k > 0 => {
                                let mut set = $modname::RecordSet::default();
                                match rdr.read_record_set_exact(&mut set, Some(k)) {
                                    Some(Ok(())) => {}
                                    _ => fail!(format!("{}/prefix", $name), "read_record_set_exact({}) failed", k),
                                }
                                ensure!(set.len() == k, format!("{}/prefix", $name), "read_record_set_exact({}) delivered {} records", k, set.len());
                                start = k;
                                ctx.class("owned iterator created right after read_record_set_exact(n)");
                            }
                            _ => {}
                        }
                        if c.steps.iter().any(|s| s.0) {
                            ctx.class("nth() on an owned / record-set iterator");
                        }
                        if into {
                            drive(concat!($name, "/RecordsIntoIter"), rdr.into_records(), &exp[start..], &c.steps, c.tail, &$conv)?;
                        } else {
                            drive(concat!($name, "/RecordsIter"), rdr.records(), &exp[start..], &c.steps, c.tail, &$conv)?;
                        }
                    }
                }};
            }
            match c.format {
                Format::Fasta => driven!(fasta, "fasta", |r: &fasta::Reader<std::io::Cursor<&[u8]>>| r.position().cloned().unwrap_or_else(|| fasta::Position::new(0, 0)), |r: Result<fasta::OwnedRecord, fasta::Error>| match r {
                    Ok(o) => Item::Rec(o.head, o.seq, None),
                    Err(_) => Item::Err,
                }),
                Format::Fastq => driven!(fastq, "fastq", |r: &fastq::Reader<std::io::Cursor<&[u8]>>| r.position().clone(), |r: Result<fastq::OwnedRecord, fastq::Error>| match r {
                    Ok(o) => Item::Rec(o.head, o.seq, Some(o.qual)),
                    Err(_) => Item::Err,
                }),
            }
        }
        match c.format {
            Format::Fasta => {
                // record set iterator
                let mut rdr = fasta::Reader::with_capacity(&c.input[..], c.cap);
                let mut set = fasta::RecordSet::default();
                // a second set that receives every batch through clone_from(): it has held more or fewer records before
                let mut copy = fasta::RecordSet::default();
                let mut exact = c.pre.1 as usize % 4;
                loop {
                    // alternate plain and exact-count reads so that the batch sizes go up and down
                    let r = if exact == 0 { rdr.read_record_set(&mut set) } else { rdr.read_record_set_exact(&mut set, Some(exact)) };
                    exact = (exact * 3 + 1) % 5;
                    match r {
                        Some(Ok(())) => {}
                        _ => break,
                    }
                    let n = set.len();
                    ctx.class("record set walked");
                    walk("fasta/RecordSetIter", set.into_iter(), n, extra)?;
                    copy.clone_from(&set);
                    if exact % 2 == 1 {
                        copy.shrink_buffer_to_fit();
                    }
                    // the line iterators of the records of the (recycled, possibly shrunk) copy run to their announced end
                    for r in &copy {
                        let announced = r.seq_lines().len();
                        ensure!(r.seq_lines().count() == announced && r.seq_lines().rev().count() == announced && r.num_seq_lines() == announced, "fasta/clone_from/seq_lines", "a record of the copy announces {} lines but yields {} forwards / {} backwards", announced, r.seq_lines().count(), r.seq_lines().rev().count());
                    }
                    ensure!(copy.len() == n, "fasta/clone_from/len", "clone_from() of a set with {} records gives a set with len() {}", n, copy.len());
                    walk("fasta/RecordSetIter(clone_from)", copy.into_iter(), n, extra)?;
                    let a: Vec<Vec<u8>> = set.into_iter().map(|r| { use fasta::Record; r.head().to_vec() }).collect();
                    let b: Vec<Vec<u8>> = copy.into_iter().map(|r| { use fasta::Record; r.head().to_vec() }).collect();
                    ensure!(a == b, "fasta/clone_from/records-differ", "the records of the clone_from() copy differ from the original's");
                }
                // after the read that reported the end (or an error) the set's reported length still equals what it yields
                let yielded = set.into_iter().count();
                ensure!(set.len() == yielded && set.is_empty() == (yielded == 0), "fasta/RecordSet/len-after-failed-read", "after the final read_record_set call the set reports len() = {} / is_empty() = {}, its iterator yields {} records", set.len(), set.is_empty(), yielded);
                if known {
                    let mut rdr = fasta::Reader::with_capacity(&c.input[..], c.cap);
                    walk("fasta/RecordsIter", rdr.records(), n_items, extra)?;
                    walk("fasta/RecordsIter(second borrow)", rdr.records(), 0, extra)?;
                    let rdr = fasta::Reader::with_capacity(&c.input[..], c.cap);
                    walk("fasta/RecordsIntoIter", rdr.into_records(), n_items, extra)?;
                }
            }
            Format::Fastq => {
                let mut rdr = fastq::Reader::with_capacity(&c.input[..], c.cap);
                let mut set = fastq::RecordSet::default();
                // a second set that receives every batch through clone_from(): it has held more or fewer records before
                let mut copy = fastq::RecordSet::default();
                let mut exact = c.pre.1 as usize % 4;
                loop {
                    // alternate plain and exact-count reads so that the batch sizes go up and down
                    let r = if exact == 0 { rdr.read_record_set(&mut set) } else { rdr.read_record_set_exact(&mut set, Some(exact)) };
                    exact = (exact * 3 + 1) % 5;
                    match r {
                        Some(Ok(())) => {}
                        _ => break,
                    }
                    let n = set.len();
                    ctx.class("record set walked");
                    walk("fastq/RecordSetIter", set.into_iter(), n, extra)?;
                    copy.clone_from(&set);
                    ensure!(copy.len() == n, "fastq/clone_from/len", "clone_from() of a set with {} records gives a set with len() {}", n, copy.len());
                    walk("fastq/RecordSetIter(clone_from)", copy.into_iter(), n, extra)?;
                    let a: Vec<Vec<u8>> = set.into_iter().map(|r| { use fastq::Record; r.head().to_vec() }).collect();
                    let b: Vec<Vec<u8>> = copy.into_iter().map(|r| { use fastq::Record; r.head().to_vec() }).collect();
                    ensure!(a == b, "fastq/clone_from/records-differ", "the records of the clone_from() copy differ from the original's");
                }
                // after the read that reported the end (or an error) the set's reported length still equals what it yields
                let yielded = set.into_iter().count();
                ensure!(set.len() == yielded && set.is_empty() == (yielded == 0), "fastq/RecordSet/len-after-failed-read", "after the final read_record_set call the set reports len() = {} / is_empty() = {}, its iterator yields {} records", set.len(), set.is_empty(), yielded);
                if known {
                    let mut rdr = fastq::Reader::with_capacity(&c.input[..], c.cap);
                    walk("fastq/RecordsIter", rdr.records(), n_items, extra)?;
                    walk("fastq/RecordsIter(second borrow)", rdr.records(), 0, extra)?;
                    let rdr = fastq::Reader::with_capacity(&c.input[..], c.cap);
                    walk("fastq/RecordsIntoIter", rdr.into_records(), n_items, extra)?;
                }
            }
        }
        Ok(())
    }
}

pub const RULE: &str = "sub-check seq-lines: (0..8 sequence lines incl. empty ones, LF/CRLF, step list over {next, next_back, nth(k), nth_back(k)} of length 0..12 continuing past the end, skip count) -> after every step len(), size_hint and the returned item are compared with a Vec model with two indices; adaptor programs enumerate().rev(), rev(), rev().enumerate(), skip(k) (also driven past its end), nth() past the end, step_by, take, rev().skip, zip, enumerate().rev() after partial consumption, count, last, and the internally iterating ones (fold, rfold, for_each, sum, max_by_key, min, position, rposition, all, find, rfind, chain, partition, peekable) are compared with the same adaptors over the model Vec. Exhaustive: all step lists of length <= 8 for 0..=5 lines. Sub-check other-iterators: RecordSetIter, RecordsIter, RecordsIntoIter of both formats walked to the end and beyond: size_hint brackets the truth after every step, None stays None; RecordsIter / RecordsIntoIter additionally created after a reader prefix (k next() calls, read_record_set_exact(k), or next() calls followed by a seek back) and driven by 0..7 steps of next() / nth(k) and then skip(a).step_by(b): every returned item (record contents or the one terminal error) and the size hint after every step are compared with the model's item list. Non-trivial = >= 2 items and >= 1 step (seq-lines) / >= 2 records (others). Distinct = hash(case).";

pub fn run(tier: Tier) -> i32 {
    let mut run = Run::new("C20", tier, "exploration");
    let p = SeqLinesContract;
    run.replays("seq-lines", &p);
    run.generated("seq-lines", &p, tier.pick(400_000, 3_000_000));
    run.exhaustive("seq-lines-exhaustive", "all step lists over {next, next_back} of length 0..=8 and over {next, next_back, nth(1), nth_back(1), nth(6)} of length 0..=5, x 0..=5 sequence lines x {LF, CRLF}", |ctx| {
        for n in 0..=5usize {
            let lines: Vec<B> = (0..n).map(|i| B(vec![b'A' + i as u8; i % 3])).collect();
            for crlf in [false, true] {
                // (a) all front/back lists up to length 8; (b) all lists up to length 5 over a 5-symbol alphabet with nth / nth_back
                let alpha2 = [StepOp::Front, StepOp::Back];
                let alpha5 = [StepOp::Front, StepOp::Back, StepOp::Nth(1), StepOp::NthBack(1), StepOp::Nth(6)];
                for (alpha, max_l) in [(&alpha2[..], 8u32), (&alpha5[..], 5u32)] {
                    let k = alpha.len() as u64;
                    for l in 0..=max_l {
                        for code in 0..k.pow(l) {
                            let mut x = code;
                            let steps: Vec<StepOp> = (0..l)
                                .map(|_| {
                                    let s = alpha[(x % k) as usize];
                                    x /= k;
                                    s
                                })
                                .collect();
                            let c = Case { lines: lines.clone(), crlf, final_term: true, steps, skip: (code % 7) as u8 };
                            ctx.eval();
                            if n >= 2 && l >= 1 {
                                ctx.nontrivial(&c, &c);
                            }
                            let mut scratch = Ctx::new(false);
                            if let Err(f) = crate::engine::guarded(|| check_seq_lines(&c, &mut scratch)) {
                                return Err((serde_json::to_value(&c).unwrap(), f));
                            }
                        }
                    }
                }
            }
        }
        Ok(())
    });
    let q = OtherIterators;
    run.replays("other-iterators", &q);
    run.generated("other-iterators", &q, tier.pick(100_000, 1_000_000));
    let _ = json!(null);
    let _: Option<Failure> = None;
    run.finish(RULE, &["the Vec-with-two-indices model is the definition of a double-ended exact-size iterator"])
}

pub fn replay(run: &mut Run, file: &std::path::Path) -> Option<bool> {
    run.replay_file("seq-lines", &SeqLinesContract, file, true)
        .or_else(|| run.replay_file("seq-lines-exhaustive", &SeqLinesContract, file, true))
        .or_else(|| run.replay_file("other-iterators", &OtherIterators, file, true))
}
