//! "Huge record" sub-checks of C01, C02 and C03: a record larger than the 8 MiB threshold of the standard growth
//! policy (where doubling turns into adding 8 MiB), read with the default capacity and with tiny ones.
//! Few cases (each reads 9-18 MiB), same oracles as the small-input checks.

use crate::engine::{boxed, CheckResult, Ctx, Prop, Tier};
use crate::light::{compare, fmt_name, read_all, Mode};
use crate::model::{Format, Model};
use crate::policy::PolKind;
use crate::source::Script;
use crate::{ensure, fail};
use proptest::prelude::*;
use serde_derive::{Deserialize, Serialize};

#[derive(Clone, Debug, Serialize, Deserialize, Hash)]
pub struct Case {
    pub format: Format,
    /// small records in front of / behind the huge one
    pub before: u8,
    pub after: u8,
    /// length of the huge sequence in bytes
    pub big_len: u32,
    pub line_width: u16,
    pub crlf: bool,
    pub cap: usize,
    pub chunk: u32,
}

pub fn document(c: &Case) -> Vec<u8> {
    let t: &[u8] = if c.crlf { b"\r\n" } else { b"\n" };
    let mut v = Vec::with_capacity(c.big_len as usize + c.big_len as usize / 50 + 4096);
    let mut rec = |v: &mut Vec<u8>, i: usize, len: usize| {
        let seq: Vec<u8> = (0..len).map(|k| b"ACGT"[(k + i) & 3]).collect();
        match c.format {
            Format::Fasta => {
                v.extend_from_slice(format!(">r{} len={}", i, len).as_bytes());
                v.extend_from_slice(t);
                for l in seq.chunks(c.line_width.max(1) as usize) {
                    v.extend_from_slice(l);
                    v.extend_from_slice(t);
                }
            }
            Format::Fastq => {
                v.extend_from_slice(format!("@r{} len={}", i, len).as_bytes());
                v.extend_from_slice(t);
                v.extend_from_slice(&seq);
                v.extend_from_slice(t);
                v.push(b'+');
                v.extend_from_slice(t);
                v.resize(v.len() + len, b'I');
                v.extend_from_slice(t);
            }
        }
    };
    for i in 0..c.before as usize {
        rec(&mut v, i, 10 + i * 7);
    }
    rec(&mut v, c.before as usize, c.big_len as usize);
    for i in 0..c.after as usize {
        rec(&mut v, c.before as usize + 1 + i, 5 + i * 3);
    }
    v
}

pub fn strategy(format: Option<Format>) -> BoxedStrategy<Case> {
    let f = match format {
        Some(f) => Just(f).boxed(),
        None => crate::gen::format(),
    };
    // FASTQ needs about twice the sequence length
    let big = prop_oneof![
        2 => ((8u32 << 20) - 4)..((8u32 << 20) + 70),
        2 => (9u32 << 20)..(10u32 << 20),
        1 => ((16u32 << 20) - 4)..((16u32 << 20) + 70),
        1 => (12u32 << 20)..(18u32 << 20),
    ];
    let cap = prop_oneof![3 => Just(65536usize), 2 => Just(3usize), 1 => 4usize..100, 1 => Just(1usize << 20), 1 => Just(8usize << 20), 1 => Just((8usize << 20) + 1), 1 => Just(12usize << 20), 1 => Just(20usize << 20)];
    boxed((f, 0u8..4, 0u8..4, big, prop_oneof![Just(60u16), Just(70u16), Just(65535u16), 1u16..2000], any::<bool>(), cap, prop_oneof![Just(0u32), Just(65535u32), Just(4093u32)]).prop_map(
        |(format, before, after, big_len, line_width, crlf, cap, chunk)| Case {
            format,
            before,
            after,
            big_len: if format == Format::Fastq { big_len / 2 + (4 << 20) } else { big_len },
            line_width,
            crlf,
            cap,
            chunk,
        },
    ))
}

fn script(c: &Case) -> Script {
    // chunk limits are u16 in the script (0 = the source satisfies every request in one call)
    Script { chunks: if c.chunk == 0 || c.chunk > 65535 { vec![] } else { vec![c.chunk as u16] }, ..Default::default() }
}

/// C01 / C02: the outcome equals the reference model
pub struct HugeModel(pub Format);

impl Prop for HugeModel {
    type Case = Case;
    fn strategy(&self, _tier: Tier) -> BoxedStrategy<Case> {
        strategy(Some(self.0))
    }
    fn check(&self, c: &Case, ctx: &mut Ctx) -> CheckResult {
        let doc = document(c);
        let m = Model::build(c.format, &doc);
        ensure!(m.recs.len() == c.before as usize + c.after as usize + 1, "harness/huge-doc", "harness: document does not model as expected");
        ctx.nontrivial(c, c);
        ctx.class("record larger than 8 MiB (beyond the doubling threshold of the standard policy)");
        let r = read_all(c.format, &doc, c.cap, PolKind::Std, &script(c), Mode::Next, m.recs.len() + 4);
        crate::interp_livelock(&r.src, c.format)?;
        let grows = r.pol.borrow().len();
        ctx.class_n("growth requests", grows as u64);
        compare(&m, &r.outs, false)?;
        // the same input with a buffer of tens of MiB from the start, filled through short reads (a pipe): every
        // refill has many MiB of free room and needs hundreds of source calls
        let cap2 = (20usize << 20) + c.before as usize * 4099;
        let piped = Script { chunks: vec![if c.chunk == 0 { 65535 } else { c.chunk as u16 }], ..Default::default() };
        let r2 = read_all(c.format, &doc, cap2, PolKind::Std, &piped, Mode::Next, m.recs.len() + 4);
        crate::interp_livelock(&r2.src, c.format)?;
        ctx.class("initial capacity of 20 MiB filled through short reads");
        compare(&m, &r2.outs, false).map_err(|f| crate::engine::Failure::new(f.sig.replace("/read/", "/read-with-20MiB-buffer/"), f.msg))
    }
}

/// C03: standard policy vs DoubleUntil(8 MiB) (documented as identical) vs a buffer that is large enough from the start
pub struct HugeDiff;

impl Prop for HugeDiff {
    type Case = Case;
    fn strategy(&self, _tier: Tier) -> BoxedStrategy<Case> {
        strategy(None)
    }
    fn check(&self, c: &Case, ctx: &mut Ctx) -> CheckResult {
        let f = fmt_name(c.format);
        let doc = document(c);
        ctx.nontrivial(c, c);
        ctx.class("record larger than 8 MiB: StdPolicy vs DoubleUntil(8 MiB) vs capacity 32 MiB");
        let max = c.before as usize + c.after as usize + 5;
        let a = read_all(c.format, &doc, c.cap, PolKind::Std, &script(c), Mode::Next, max);
        crate::interp_livelock(&a.src, c.format)?;
        let b = read_all(c.format, &doc, c.cap, PolKind::DoubleUntil(1 << 23), &Script::default(), Mode::Next, max);
        crate::interp_livelock(&b.src, c.format)?;
        // (the large buffer is filled through the same short reads as run A: many source calls per refill)
        let big = read_all(c.format, &doc, 48 << 20, PolKind::RefuseAlways, &script(c), Mode::Next, max);
        crate::interp_livelock(&big.src, c.format)?;
        for (name, other) in [("DoubleUntil(8 MiB)", &b), ("capacity 48 MiB, no growth allowed", &big)] {
            if a.outs != other.outs || a.pos != other.pos {
                let i = (0..a.outs.len().max(other.outs.len())).find(|&i| a.outs.get(i) != other.outs.get(i) || a.pos.get(i) != other.pos.get(i)).unwrap_or(0);
                let show = |o: Option<&crate::driver::Out>| match o {
                    Some(crate::driver::Out::Rec(r)) => format!("Rec(head {:?}, {} line(s))", r.head, r.lines.len()),
                    other => format!("{:?}", other),
                };
                fail!(
                    format!("{}/huge/outcome-depends-on-configuration", f),
                    "item {} differs between (capacity {}, StdPolicy) and ({}): {} at {:?} vs {} at {:?}",
                    i,
                    c.cap,
                    name,
                    show(a.outs.get(i)),
                    a.pos.get(i),
                    show(other.outs.get(i)),
                    other.pos.get(i)
                );
            }
        }
        Ok(())
    }
}

// ------------------------------------------------------------------------------------------------
// records larger than a buffer of 64 KiB or more, with a chosen structural byte (line terminators, the separator)
// placed on the last bytes of the buffer at the moment it is full - at the initial capacity or after 1..2 doublings

#[derive(Clone, Debug, Serialize, Deserialize, Hash)]
pub struct AlignedCase {
    pub format: Format,
    pub cap: usize,
    /// the buffer size at which the boundary is placed: cap << doublings
    pub doublings: u8,
    /// which byte of the long record: 0 = CR/LF ending the sequence line (FASTA: the only line), 1 = the '+',
    /// 2 = terminator of the separator line, 3 = terminator of the quality line, 4 = terminator of the header line
    pub boundary: u8,
    /// placed at buffer index size - 1 + delta
    pub delta: i8,
    pub crlf: bool,
    /// small records in front of / behind the long one
    pub before: u8,
    pub after: u8,
    pub chunk: u16,
    pub sets: bool,
}

pub fn aligned_doc(c: &AlignedCase) -> Vec<u8> {
    let t: &[u8] = if c.crlf { b"\r\n" } else { b"\n" };
    let size = c.cap << c.doublings.min(3);
    let target = (size as i64 - 1 + c.delta as i64).max(40) as usize;
    let small = |v: &mut Vec<u8>, i: usize| {
        let seq: Vec<u8> = (0..5 + i).map(|k| b"ACGT"[(k + i) & 3]).collect();
        match c.format {
            Format::Fasta => {
                v.extend_from_slice(format!(">s{}", i).as_bytes());
                v.extend_from_slice(t);
                v.extend_from_slice(&seq);
                v.extend_from_slice(t);
            }
            Format::Fastq => {
                v.extend_from_slice(format!("@s{}", i).as_bytes());
                v.extend_from_slice(t);
                v.extend_from_slice(&seq);
                v.extend_from_slice(t);
                v.push(b'+');
                v.extend_from_slice(t);
                v.resize(v.len() + seq.len(), b'I');
                v.extend_from_slice(t);
            }
        }
    };
    // the long record: `id_len` and `seq_len` are solved so that the chosen byte has index `target` in the record
    let build = |id_len: usize, seq_len: usize| -> (Vec<u8>, usize) {
        let mut r = Vec::with_capacity(2 * seq_len + id_len + 16);
        r.push(if c.format == Format::Fasta { b'>' } else { b'@' });
        r.extend((0..id_len).map(|k| b"longrecord"[k % 10]));
        r.extend_from_slice(t);
        let head_end = r.len() - 1;
        r.extend((0..seq_len).map(|k| b"ACGT"[k & 3]));
        r.extend_from_slice(t);
        let seq_end = r.len() - 1;
        let (mut plus, mut sep_end, mut qual_end) = (seq_end, seq_end, seq_end);
        if c.format == Format::Fastq {
            r.push(b'+');
            plus = r.len() - 1;
            r.extend_from_slice(t);
            sep_end = r.len() - 1;
            r.resize(r.len() + seq_len, b'I');
            r.extend_from_slice(t);
            qual_end = r.len() - 1;
        }
        let at = match c.boundary % 5 {
            0 => seq_end,
            1 => plus,
            2 => sep_end,
            3 => qual_end,
            _ => head_end,
        };
        (r, at)
    };
    let (id_len, seq_len) = if c.boundary % 5 == 4 {
        // header-line terminator: solve for the id length, with a sequence that is long as well
        let (_, at) = build(10, 100);
        (10 + target.saturating_sub(at), 100 + size / 8)
    } else {
        let (_, at) = build(10, 100);
        let slope = if c.format == Format::Fastq && c.boundary % 5 == 3 { 2 } else { 1 };
        (10, 100 + target.saturating_sub(at) / slope)
    };
    let (long, _) = build(id_len, seq_len);
    let mut v = Vec::with_capacity(long.len() + 200);
    for i in 0..c.before as usize {
        small(&mut v, i);
    }
    v.extend_from_slice(&long);
    for i in 0..c.after as usize {
        small(&mut v, 10 + i);
    }
    v
}

pub struct AlignedLarge(pub Format);

impl Prop for AlignedLarge {
    type Case = AlignedCase;
    fn strategy(&self, _tier: Tier) -> BoxedStrategy<AlignedCase> {
        let f = self.0;
        boxed(
            (prop_oneof![3 => Just(65536usize), 1 => Just(100_000usize), 1 => Just(1usize << 17), 1 => 65_537usize..70_000], 0u8..3, 0u8..5, -3i8..=3, prop::bool::weighted(0.7), 0u8..3, 0u8..3, prop_oneof![2 => Just(0u16), 1 => Just(4097u16), 1 => Just(65535u16), 1 => 1000u16..9000], any::<bool>())
                .prop_map(move |(cap, doublings, boundary, delta, crlf, before, after, chunk, sets)| AlignedCase { format: f, cap, doublings, boundary, delta, crlf, before, after, chunk, sets }),
        )
    }
    fn check(&self, c: &AlignedCase, ctx: &mut Ctx) -> CheckResult {
        let doc = aligned_doc(c);
        let m = Model::build(c.format, &doc);
        ensure!(m.recs.len() == c.before as usize + c.after as usize + 1 && m.term == crate::model::Terminal::End, "harness/aligned-doc", "harness: document does not model as expected ({} records, {:?})", m.recs.len(), m.term);
        ctx.nontrivial(c, c);
        ctx.class(match c.boundary % 5 {
            0 => "buffer end at the terminator of the (long) sequence line",
            1 => "buffer end at the '+'",
            2 => "buffer end at the terminator of the separator line",
            3 => "buffer end at the terminator of the quality line",
            _ => "buffer end at the terminator of the (long) header line",
        });
        if c.crlf && c.delta == 0 {
            ctx.class("buffer full exactly between CR and LF (or on the LF)");
        }
        let script = Script { chunks: if c.chunk == 0 { vec![] } else { vec![c.chunk] }, ..Default::default() };
        let r = read_all(c.format, &doc, c.cap, PolKind::Std, &script, if c.sets { Mode::Sets } else { Mode::Next }, m.recs.len() + 4);
        crate::interp_livelock(&r.src, c.format)?;
        compare(&m, &r.outs, false).map_err(|f| crate::engine::Failure::new(f.sig.replace("/read/", "/read-aligned-large/"), f.msg))
    }
}
