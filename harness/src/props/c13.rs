//! C13 — all views of a record agree with each other. Relations between accessors only; no model.
//! (DESIGN.md §4 C13)

use crate::engine::{boxed, CheckResult, Ctx, Prop, Run, Tier};
use crate::gen;
use crate::model::Format;
use crate::util::B;
use crate::{ensure, fail};
use proptest::prelude::*;
use seq_io::{fasta, fastq};
use serde_derive::{Deserialize, Serialize};
use std::borrow::Cow;

#[derive(Clone, Debug, Serialize, Deserialize, Hash)]
pub struct Case {
    pub format: Format,
    pub input: B,
    pub cap: usize,
    /// the record-set pass: (next() calls made before the first set read, n of read_record_set_exact or 0 = plain,
    /// what is done to the set before its records are viewed: 0 nothing, 1 shrink_buffer_to_fit, 2 view a clone(),
    /// 3 view a recycled set filled through clone_from(), 4 shrink_buffer_to_fit on that recycled copy)
    #[serde(default)]
    pub set_plan: (u8, u8, u8),
}

/// everything a record exposes, as owned values
#[derive(Debug, PartialEq, Eq, Clone)]
pub struct Snap {
    head: B,
    seq: B,
    qual: Option<B>,
    lines: Option<Vec<B>>,
    id_bytes: B,
    desc_bytes: Option<B>,
    id: Result<String, ()>,
    desc: Option<Result<String, ()>>,
    id_desc: Result<(String, Option<String>), ()>,
}

fn strip_terminators(raw: &[u8]) -> Vec<u8> {
    // remove every LF and a CR directly in front of it
    let mut out = Vec::with_capacity(raw.len());
    let mut i = 0;
    while i < raw.len() {
        if raw[i] == b'\n' {
            i += 1;
            continue;
        }
        if raw[i] == b'\r' && i + 1 < raw.len() && raw[i + 1] == b'\n' {
            i += 2;
            continue;
        }
        out.push(raw[i]);
        i += 1;
    }
    out
}

macro_rules! header_relations {
    ($r:expr, $what:expr) => {{
        let r = $r;
        let head: &[u8] = r.head();
        let sp = head.iter().position(|&b| b == b' ');
        let (want_id, want_desc): (&[u8], Option<&[u8]>) = match sp {
            Some(i) => (&head[..i], Some(&head[i + 1..])),
            None => (head, None),
        };
        ensure!(r.id_bytes() == want_id, format!("{}/id_bytes", $what), "id_bytes() = {:?}, header = {:?}", B::new(r.id_bytes()), B::new(head));
        ensure!(r.desc_bytes() == want_desc, format!("{}/desc_bytes", $what), "desc_bytes() = {:?}, header = {:?}", r.desc_bytes().map(B::new), B::new(head));
        ensure!(r.id_desc_bytes() == (want_id, want_desc), format!("{}/id_desc_bytes", $what), "id_desc_bytes() disagrees with the header {:?}", B::new(head));
        match (r.id(), std::str::from_utf8(want_id)) {
            (Ok(a), Ok(b)) => ensure!(a == b, format!("{}/id", $what), "id() = {:?}, expected {:?}", a, b),
            (Err(_), Err(_)) => {}
            (a, b) => fail!(format!("{}/id-utf8", $what), "id() = {:?} but from_utf8(id bytes) = {:?}", a, b),
        }
        match (r.desc(), want_desc.map(std::str::from_utf8)) {
            (None, None) => {}
            (Some(Ok(a)), Some(Ok(b))) => ensure!(a == b, format!("{}/desc", $what), "desc() = {:?}, expected {:?}", a, b),
            (Some(Err(_)), Some(Err(_))) => {}
            (a, b) => fail!(format!("{}/desc-utf8", $what), "desc() = {:?} but expected {:?}", a, b),
        }
        match (r.id_desc(), std::str::from_utf8(head)) {
            (Ok((i, d)), Ok(_)) => {
                ensure!(
                    i.as_bytes() == want_id && d.map(|d| d.as_bytes()) == want_desc,
                    format!("{}/id_desc", $what),
                    "id_desc() = {:?}, header = {:?}",
                    (i, d),
                    B::new(head)
                )
            }
            (Err(_), Err(_)) => {}
            (a, b) => fail!(format!("{}/id_desc-utf8", $what), "id_desc() = {:?} but from_utf8(header) = {:?}", a, b),
        }
        Snap {
            head: B::new(head),
            seq: B::new(r.seq()),
            qual: None,
            lines: None,
            id_bytes: B::new(r.id_bytes()),
            desc_bytes: r.desc_bytes().map(B::new),
            id: r.id().map(|s| s.to_string()).map_err(|_| ()),
            desc: r.desc().map(|d| d.map(|s| s.to_string()).map_err(|_| ())),
            id_desc: r.id_desc().map(|(i, d)| (i.to_string(), d.map(|d| d.to_string()))).map_err(|_| ()),
        }
    }};
}

fn fa_ref(r: &fasta::RefRecord, ctx: &mut Ctx) -> Result<(Snap, Snap), crate::engine::Failure> {
    use fasta::Record;
    let mut snap = header_relations!(r, "fasta/ref");
    let lines: Vec<&[u8]> = r.seq_lines().collect();
    let concat: Vec<u8> = lines.concat();
    // internal iteration sees the same lines as next()
    let folded: Vec<u8> = r.seq_lines().fold(Vec::new(), |mut v, l| {
        v.extend_from_slice(l);
        v
    });
    ensure!(folded == concat, "fasta/seq_lines-fold", "lines visited by fold() concatenate to {:?}, those yielded by next() to {:?}", B(folded.clone()), B(concat.clone()));
    ensure!(r.owned_seq() == concat, "fasta/owned_seq", "owned_seq() = {:?}, concatenated lines = {:?}", B(r.owned_seq()), B(concat.clone()));
    let full = r.full_seq();
    ensure!(&full[..] == &concat[..], "fasta/full_seq", "full_seq() = {:?}, concatenated lines = {:?}", B::new(&full), B(concat.clone()));
    let borrowed = matches!(full, Cow::Borrowed(_));
    ensure!(
        borrowed == (lines.len() == 1),
        "fasta/full_seq-borrowed",
        "full_seq() is {} but the record has {} line(s)",
        if borrowed { "borrowed" } else { "owned" },
        lines.len()
    );
    let stripped = strip_terminators(r.seq());
    ensure!(
        stripped == concat,
        "fasta/raw-seq",
        "raw seq() = {:?} without line terminators is {:?}, concatenated lines = {:?}",
        B::new(r.seq()),
        B(stripped.clone()),
        B(concat.clone())
    );
    ensure!(r.num_seq_lines() == lines.len(), "fasta/num_seq_lines", "num_seq_lines() = {}, seq_lines() yields {}", r.num_seq_lines(), lines.len());
    ensure!(r.seq_lines().len() == lines.len(), "fasta/seq_lines-len", "seq_lines().len() = {}, yields {}", r.seq_lines().len(), lines.len());
    let back: Vec<&[u8]> = r.seq_lines().rev().collect();
    ensure!(back.len() == lines.len(), "fasta/seq_lines-rev-count", "{} lines backwards, {} forwards", back.len(), lines.len());
    ensure!(back.iter().rev().eq(lines.iter()), "fasta/seq_lines-rev", "lines backwards differ from lines forwards");
    for l in &lines {
        ensure!(!l.contains(&b'\n'), "fasta/line-contains-lf", "a sequence line contains LF: {:?}", B::new(l));
    }
    snap.lines = Some(lines.iter().map(|l| B::new(l)).collect());
    if lines.len() >= 2 {
        ctx.class("record with >= 2 lines");
    }
    if lines.iter().any(|l| l.is_empty()) {
        ctx.class("empty line inside a sequence");
    }
    // owned copy
    let o = r.to_owned_record();
    ensure!(o.seq == concat, "fasta/owned-record-seq", "to_owned_record().seq = {:?}, concatenated lines = {:?}", B(o.seq.clone()), B(concat));
    let osnap = header_relations!(&o, "fasta/owned");
    Ok((snap, osnap))
}

fn fq_ref(r: &fastq::RefRecord) -> Result<(Snap, Snap), crate::engine::Failure> {
    use fastq::Record;
    let mut snap = header_relations!(r, "fastq/ref");
    snap.qual = Some(B::new(r.qual()));
    let o = r.to_owned_record();
    let mut osnap = header_relations!(&o, "fastq/owned");
    osnap.qual = Some(B::new(o.qual()));
    ensure!(o.head == r.head() && o.seq == r.seq() && o.qual == r.qual(), "fastq/owned-fields", "owned copy differs from the borrowed record");
    Ok((snap, osnap))
}

fn same_header_views(a: &Snap, b: &Snap, what: &str) -> CheckResult {
    ensure!(
        a.head == b.head && a.id_bytes == b.id_bytes && a.desc_bytes == b.desc_bytes && a.id == b.id && a.desc == b.desc && a.id_desc == b.id_desc && a.qual == b.qual,
        format!("{}/views-differ", what),
        "views differ:\n  {:?}\n  {:?}",
        a,
        b
    );
    Ok(())
}

pub struct Views;

impl Prop for Views {
    type Case = Case;
    fn input_bytes<'a>(&self, c: &'a mut Self::Case) -> Option<&'a mut Vec<u8>> {
        Some(&mut c.input.0)
    }
    fn strategy(&self, _tier: Tier) -> BoxedStrategy<Case> {
        let per = |f: Format| {
            (gen::input_and_cap(f, gen::any_input(f, true)), (prop_oneof![2 => Just(0u8), 1 => 1u8..5], prop_oneof![2 => Just(0u8), 1 => 1u8..6], 0u8..5)).prop_map(move |((input, cap), set_plan)| Case { format: f, input, cap, set_plan })
        };
        boxed(prop_oneof![per(Format::Fasta), per(Format::Fastq)])
    }

    fn check(&self, c: &Case, ctx: &mut Ctx) -> CheckResult {
        let mut from_next: Vec<Snap> = Vec::new();
        let mut n_interesting = 0;
        match c.format {
            Format::Fasta => {
                let mut rdr = fasta::Reader::with_capacity(&c.input[..], c.cap);
                while let Some(Ok(r)) = rdr.next() {
                    let (s, o) = fa_ref(&r, ctx)?;
                    // the owned copy exposes the same header views; its seq() is the concatenated sequence
                    same_header_views(&s, &o, "fasta/owned-vs-ref")?;
                    if s.lines.as_ref().unwrap().len() >= 2 || s.desc_bytes.is_some() || s.id.is_err() {
                        n_interesting += 1;
                    }
                    from_next.push(s);
                }
                let mut rdr = fasta::Reader::with_capacity(&c.input[..], c.cap);
                let mut set = fasta::RecordSet::default();
                let mut recycled = fasta::RecordSet::default();
                let mut i = 0;
                // some records are taken with next() first: the first record of the set then does not start the buffer
                for _ in 0..c.set_plan.0 {
                    match rdr.next() {
                        Some(Ok(_)) => i += 1,
                        _ => break,
                    }
                }
                let mut k = 0usize;
                loop {
                    let res = if c.set_plan.1 == 0 { rdr.read_record_set(&mut set) } else { rdr.read_record_set_exact(&mut set, Some(c.set_plan.1 as usize + k % 3)) };
                    k += 1;
                    match res {
                        Some(Ok(())) => {}
                        _ => break,
                    }
                    let viewed: &fasta::RecordSet = match c.set_plan.2 {
                        1 => {
                            set.shrink_buffer_to_fit();
                            &set
                        }
                        2 => {
                            recycled = set.clone();
                            &recycled
                        }
                        3 => {
                            recycled.clone_from(&set);
                            &recycled
                        }
                        4 => {
                            recycled.clone_from(&set);
                            recycled.shrink_buffer_to_fit();
                            &recycled
                        }
                        _ => &set,
                    };
                    for r in viewed {
                        let (s, _) = fa_ref(&r, ctx)?;
                        ensure!(i < from_next.len(), "fasta/set-extra-record", "record sets deliver more records than next()");
                        ensure!(s == from_next[i], "fasta/set-vs-next/views-differ", "record {} from a record set: {:?}\n  from next(): {:?}", i, s, from_next[i]);
                        i += 1;
                    }
                }
                ensure!(i == from_next.len(), "fasta/set-fewer-records", "record sets delivered {} records, next() {}", i, from_next.len());
            }
            Format::Fastq => {
                let mut rdr = fastq::Reader::with_capacity(&c.input[..], c.cap);
                while let Some(Ok(r)) = rdr.next() {
                    let (s, o) = fq_ref(&r)?;
                    same_header_views(&s, &o, "fastq/owned-vs-ref")?;
                    ensure!(s.seq == o.seq, "fastq/owned-vs-ref/seq", "seq differs");
                    if s.desc_bytes.is_some() || s.id.is_err() {
                        n_interesting += 1;
                    }
                    from_next.push(s);
                }
                let mut rdr = fastq::Reader::with_capacity(&c.input[..], c.cap);
                let mut set = fastq::RecordSet::default();
                let mut recycled = fastq::RecordSet::default();
                let mut i = 0;
                // some records are taken with next() first: the first record of the set then does not start the buffer
                for _ in 0..c.set_plan.0 {
                    match rdr.next() {
                        Some(Ok(_)) => i += 1,
                        _ => break,
                    }
                }
                let mut k = 0usize;
                loop {
                    let res = if c.set_plan.1 == 0 { rdr.read_record_set(&mut set) } else { rdr.read_record_set_exact(&mut set, Some(c.set_plan.1 as usize + k % 3)) };
                    k += 1;
                    match res {
                        Some(Ok(())) => {}
                        _ => break,
                    }
                    let viewed: &fastq::RecordSet = match c.set_plan.2 {
                        1 => {
                            set.shrink_buffer_to_fit();
                            &set
                        }
                        2 => {
                            recycled = set.clone();
                            &recycled
                        }
                        3 => {
                            recycled.clone_from(&set);
                            &recycled
                        }
                        4 => {
                            recycled.clone_from(&set);
                            recycled.shrink_buffer_to_fit();
                            &recycled
                        }
                        _ => &set,
                    };
                    for r in viewed {
                        let (s, _) = fq_ref(&r)?;
                        ensure!(i < from_next.len(), "fastq/set-extra-record", "record sets deliver more records than next()");
                        ensure!(s == from_next[i], "fastq/set-vs-next/views-differ", "record {} from a record set: {:?}\n  from next(): {:?}", i, s, from_next[i]);
                        i += 1;
                    }
                }
                ensure!(i == from_next.len(), "fastq/set-fewer-records", "record sets delivered {} records, next() {}", i, from_next.len());
            }
        }
        ctx.class(match c.set_plan.2 {
            1 => "set pass: after shrink_buffer_to_fit()",
            2 => "set pass: a clone() of the set",
            3 => "set pass: a recycled set filled through clone_from()",
            4 => "set pass: recycled clone_from() copy after shrink_buffer_to_fit()",
            _ => "set pass: the set itself",
        });
        ctx.class_n("records observed", from_next.len() as u64);
        if from_next.iter().any(|s| s.id.is_err() || s.desc == Some(Err(()))) {
            ctx.class("invalid UTF-8 in a header");
        }
        if from_next.iter().any(|s| s.head.is_empty()) {
            ctx.class("empty header");
        }
        if from_next.iter().any(|s| s.head.first() == Some(&b' ') || s.head.windows(2).any(|w| w == b"  ")) {
            ctx.class("leading / repeated spaces in a header");
        }
        if n_interesting > 0 {
            ctx.nontrivial(c, c);
        }
        Ok(())
    }
}

pub const RULE: &str = "cases = (format, any input (documents with non-UTF-8 bytes, empty headers, leading/multiple spaces, empty lines inside sequences; mutations; soups), capacity). Every record returned by next() is observed three ways (borrowed, to_owned_record(), from a record set of a second reader over the same input - the set being filled by plain or exact-count reads, after 0..4 next() calls, and viewed directly, after shrink_buffer_to_fit(), as a clone() or as a recycled set filled through clone_from()) and the accessor relations of C13 are checked: concatenated seq_lines = owned_seq = full_seq = owned.seq; raw seq() minus line terminators = the same; num_seq_lines = len = count forwards = count backwards; full_seq borrowed iff one line; id/desc split at the first space; text accessors Ok iff valid UTF-8 and equal; all three observations expose identical values. Non-trivial = a record with >= 2 lines, or a space in the header, or invalid UTF-8. Distinct = hash(case).";

pub fn run(tier: Tier) -> i32 {
    let mut run = Run::new("C13", tier, "exploration");
    let p = Views;
    run.replays("view-relations", &p);
    run.generated("view-relations", &p, tier.pick(300_000, 3_000_000));
    run.finish(RULE, &["relations only: no reference model is involved"])
}

pub fn replay(run: &mut Run, file: &std::path::Path) -> Option<bool> {
    run.replay_file("view-relations", &Views, file, true)
}
