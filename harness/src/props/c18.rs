//! C18 — steady-state reading allocates nothing and keeps the buffer size.
//! Resource counter: counting global allocator with a thread-local window. (DESIGN.md §4 C18)

use crate::alloc::measured;
use crate::engine::{boxed, CheckResult, Ctx, Prop, Run, Tier};
use crate::gen;
use crate::light::fmt_name;
use crate::model::{Format, Model, Terminal};
use crate::policy::{PolKind, RecPolicy, Shared};
use crate::source::ChunkedSend;
use crate::{ensure, fail};
use proptest::prelude::*;
use seq_io::{fasta, fastq};
use serde_derive::{Deserialize, Serialize};
use std::rc::Rc;

#[derive(Clone, Debug, Serialize, Deserialize, Hash)]
pub struct Case {
    pub format: Format,
    pub n_records: u16,
    pub seq_len: u8,
    pub jitter: u8,
    pub crlf: bool,
    /// capacity = (largest extent + 1) * factor + slack
    pub factor: u8,
    pub slack: u8,
    pub chunks: Vec<u16>,
    pub sets: bool,
    /// non-empty: mixed use of one reader - entry true = read_record_set(), false = next(), cycled
    #[serde(default)]
    pub mix: Vec<bool>,
    /// FASTQ only: sequence and quality line of every record end with different terminators (LF / CRLF); such
    /// records are accepted by the reader (their lengths without terminators are equal)
    #[serde(default)]
    pub mixed_term: bool,
    /// number of seeks (a few records back, to a true record position) performed while reading
    #[serde(default)]
    pub seeks: u8,
    /// added to seq_len (0, or 200..3000: capacities in the hundreds / thousands, FASTA records with up to
    /// thousands of lines)
    #[serde(default)]
    pub big: u16,
    /// > 0: every k-th record is tiny, so that long records start a few bytes into the buffer
    #[serde(default)]
    pub tiny_every: u8,
    /// FASTA line width when `big` or `tiny_every` is set (0 = 61)
    #[serde(default)]
    pub line_width: u8,
}

pub struct NoAlloc;

impl Prop for NoAlloc {
    type Case = Case;
    fn strategy(&self, _tier: Tier) -> BoxedStrategy<Case> {
        boxed(
            (gen::format(), 100u16..1500, 0u8..40, prop_oneof![2 => Just(0u8), 2 => 1u8..4, 1 => 4u8..20], any::<bool>(), 1u8..6, 0u8..30, gen::chunks(), any::<bool>(), prop_oneof![2 => Just(vec![]), 1 => proptest::collection::vec(any::<bool>(), 2..7)], (prop::bool::weighted(0.25), prop_oneof![3 => Just(0u8), 1 => 1u8..6], prop_oneof![4 => Just(0u16), 1 => 200u16..1000, 1 => 1000u16..3000], prop_oneof![2 => Just(0u8), 1 => 2u8..6], prop_oneof![1 => Just(0u8), 1 => 1u8..4, 1 => 4u8..100])).prop_map(
                |(format, n_records, seq_len, jitter, crlf, factor, slack, chunks, sets, mix, (mixed_term, seeks, big, tiny_every, line_width))| {
                    let mixed_term = mixed_term && format == Format::Fastq && big == 0 && tiny_every == 0;
                    Case { format, n_records, seq_len, jitter, crlf, factor, slack, chunks, sets, mix, mixed_term, seeks, big, tiny_every, line_width }
                },
            ),
        )
    }

    fn check(&self, c: &Case, ctx: &mut Ctx) -> CheckResult {
        let f = fmt_name(c.format);
        let shaped = c.big > 0 || c.tiny_every > 0;
        let seq_len = c.seq_len as usize + c.big as usize;
        // about 400 kB at most
        let n_records = if c.big > 0 { (c.n_records as usize).min(400_000 / (2 * seq_len + 10)).max(40) } else { c.n_records as usize };
        let mut input = if shaped {
            let w = if c.line_width == 0 { 61 } else { c.line_width as usize };
            super::c09::long_doc_mixed(c.format, n_records, seq_len, c.jitter as usize, c.crlf, c.tiny_every as usize, 0, w)
        } else {
            super::c09::long_doc(c.format, n_records, c.seq_len as usize, c.jitter as usize, c.crlf)
        };
        if c.big > 0 {
            ctx.class("long records (capacity in the hundreds / thousands)");
            if c.format == Format::Fasta && seq_len / (if c.line_width == 0 { 61 } else { c.line_width as usize }) > 1024 {
                ctx.class("FASTA records with more than 1024 lines");
            }
        }
        if c.tiny_every > 0 {
            ctx.class("tiny records between the others");
        }
        if c.mixed_term && c.format == Format::Fastq {
            // re-render: sequence line and quality line with different terminators, alternating per record
            let all_lf: Vec<u8> = input.iter().copied().filter(|b| *b != b'\r').collect();
            let mut out = Vec::with_capacity(all_lf.len() + n_records);
            for (li, line) in all_lf.split(|b| *b == b'\n').enumerate() {
                if li == 4 * n_records {
                    break;
                }
                out.extend_from_slice(line);
                let rec = li / 4;
                let crlf = match li % 4 {
                    1 => rec % 2 == 0,
                    3 => rec % 2 == 1,
                    _ => c.crlf,
                };
                if crlf {
                    out.push(b'\r');
                }
                out.push(b'\n');
            }
            input = out;
        }
        let m = if c.mixed_term { Model::build_lenient(c.format, &input) } else { Model::build(c.format, &input) };
        ensure!(m.recs.len() == n_records && m.term == Terminal::End, "harness/long-doc", "harness: document does not model as {} records", n_records);
        let max_e = m.recs.iter().map(|r| r.extent).max().unwrap_or(0);
        let cap = ((max_e + 1) * c.factor as usize + c.slack as usize).max(3);
        let shared = Rc::new(Shared::default());
        let (pol, pol_log) = RecPolicy::new(PolKind::Std, shared);
        let src = ChunkedSend::new(input.clone(), c.chunks.clone());
        let warm = |i: usize| i >= 8 && m.recs[i].byte >= 2 * cap;
        let mut measured_calls = 0u64;
        let mut skipped_nondominated = 0u64;
        let mut seeks_done = 0u64;
        let mut sink = 0usize;
        let mixed = !c.mix.is_empty() && c.mix.iter().any(|b| *b) && c.mix.iter().any(|b| !*b);
        let use_set = |call: usize| -> bool {
            if mixed {
                c.mix[call % c.mix.len()]
            } else {
                c.sets
            }
        };
        let mode_name = if mixed { "mixed" } else if c.sets { "sets" } else { "next" };
        let total = m.recs.len();
        match c.format {
            Format::Fasta => {
                use fasta::Record;
                let mut rdr = fasta::Reader::with_capacity(src, cap).set_policy(pol);
                let mut set = fasta::RecordSet::default();
                let mut max_lines = 0usize;
                let mut slot_max: Vec<usize> = Vec::new();
                let mut lines_now: Vec<usize> = Vec::with_capacity(4096);
                let mut max_recs = 0usize;
                let mut max_total_lines = 0usize;
                let mut earlier_batches: Vec<(usize, usize)> = Vec::with_capacity(4096);
                let mut set_cap: Option<usize> = None;
                let mut i = 0usize;
                let mut call = 0usize;
                let mut seeks_left = c.seeks as usize;
                while i < total {
                    if seeks_left > 0 && i >= total / 2 && call % 7 == 3 {
                        // seek a few records back (to a true record position); only the reads after it are measured
                        seeks_left -= 1;
                        let t = i.saturating_sub(3 + seeks_left);
                        if rdr.seek(&fasta::Position::new(m.recs[t].line as u64, m.recs[t].byte as u64)).is_err() {
                            fail!(format!("{}/{}/seek-failed", f, mode_name), "seek to record {} failed", t);
                        }
                        i = t;
                        seeks_done += 1;
                    }
                    if use_set(call) {
                        lines_now.clear();
                        let ln = &mut lines_now;
                        let (res, allocs, bytes) = measured(|| match rdr.read_record_set(&mut set) {
                            Some(Ok(())) => {
                                let mut s = 0usize;
                                for r in &set {
                                    s += r.head().len() + r.seq().len();
                                    let mut n = 0;
                                    for l in r.seq_lines() {
                                        s += l.len();
                                        n += 1;
                                    }
                                    if ln.len() < ln.capacity() {
                                        ln.push(n);
                                    }
                                }
                                Some(s)
                            }
                            _ => None,
                        });
                        let s = match res {
                            Some(s) => s,
                            None => fail!(format!("{}/{}/read-failed", f, mode_name), "set read failed at record {}", i),
                        };
                        sink += s;
                        let k = set.len();
                        ensure!(lines_now.len() == k && k >= 1, "harness/c18", "harness: line bookkeeping overflow or empty batch");
                        // dominated = the batch is no larger than earlier batches in every respect an implementation may
                        // key its reusable storage on: number of records, lines per slot (one vector per record, as the
                        // pinned code does) and total number of lines (one flat vector per set)
                        // (for a flat layout the storage needed is some increasing function of (records, lines): the batch
                        // must be dominated in BOTH by one single earlier batch, not by two different ones)
                        let total_lines: usize = lines_now.iter().sum();
                        let mut dominated = k <= max_recs && total_lines <= max_total_lines && earlier_batches.iter().any(|&(kb, lb)| k <= kb && total_lines <= lb);
                        max_total_lines = max_total_lines.max(total_lines);
                        if !earlier_batches.iter().any(|&(kb, lb)| k <= kb && total_lines <= lb) && earlier_batches.len() < 4096 {
                            earlier_batches.push((k, total_lines));
                        }
                        for (j, n) in lines_now.iter().enumerate() {
                            if j >= slot_max.len() {
                                slot_max.push(0);
                                dominated = false;
                            }
                            if *n > slot_max[j] {
                                dominated = false;
                                slot_max[j] = *n;
                            }
                        }
                        max_recs = max_recs.max(k);
                        if warm(i) {
                            if dominated {
                                measured_calls += 1;
                                ensure!(
                                    allocs == 0,
                                    format!("{}/{}/allocation-in-steady-state", f, mode_name),
                                    "read_record_set() into a reused set ({} records starting at record {}, no larger than earlier batches; capacity {}) performed {} heap allocation(s) ({} bytes)",
                                    k,
                                    i,
                                    cap,
                                    allocs,
                                    bytes
                                );
                                if let Some(sc) = set_cap {
                                    ensure!(set.buf_capacity() == sc, format!("{}/{}/set-buffer-capacity-changed", f, mode_name), "record set buffer capacity changed from {} to {}", sc, set.buf_capacity());
                                }
                            } else {
                                skipped_nondominated += 1;
                            }
                            set_cap = Some(set.buf_capacity());
                        }
                        i += k;
                    } else {
                        let (res, allocs, bytes) = measured(|| match rdr.next() {
                            Some(Ok(r)) => {
                                let mut s = r.head().len() + r.seq().len();
                                let mut n = 0usize;
                                for l in r.seq_lines() {
                                    s += l.len();
                                    n += 1;
                                }
                                Some((s, n))
                            }
                            _ => None,
                        });
                        let (s, lines) = match res {
                            Some(x) => x,
                            None => fail!(format!("{}/{}/read-failed", f, mode_name), "record {} could not be read", i),
                        };
                        sink += s;
                        let dominated = lines <= max_lines;
                        max_lines = max_lines.max(lines);
                        if warm(i) {
                            if dominated {
                                measured_calls += 1;
                                ensure!(
                                    allocs == 0,
                                    format!("{}/{}/allocation-in-steady-state", f, mode_name),
                                    "next() call for record {} ({} lines, no larger than earlier ones; capacity {}) performed {} heap allocation(s) ({} bytes)",
                                    i,
                                    lines,
                                    cap,
                                    allocs,
                                    bytes
                                );
                            } else {
                                skipped_nondominated += 1;
                            }
                        }
                        i += 1;
                    }
                    call += 1;
                }
                ensure!(i == total, format!("{}/{}/record-count", f, mode_name), "{} records read, {} expected", i, total);
            }
            Format::Fastq => {
                use fastq::Record;
                let mut rdr = fastq::Reader::with_capacity(src, cap).set_policy(pol);
                let mut set = fastq::RecordSet::default();
                let mut max_recs = 0usize;
                let mut set_cap: Option<usize> = None;
                let mut i = 0usize;
                let mut call = 0usize;
                let mut seeks_left = c.seeks as usize;
                while i < total {
                    if seeks_left > 0 && i >= total / 2 && call % 7 == 3 {
                        seeks_left -= 1;
                        let t = i.saturating_sub(3 + seeks_left);
                        if rdr.seek(&fastq::Position::new(m.recs[t].line as u64, m.recs[t].byte as u64)).is_err() {
                            fail!(format!("{}/{}/seek-failed", f, mode_name), "seek to record {} failed", t);
                        }
                        i = t;
                        seeks_done += 1;
                    }
                    if use_set(call) {
                        let (res, allocs, bytes) = measured(|| match rdr.read_record_set(&mut set) {
                            Some(Ok(())) => {
                                let mut s = 0usize;
                                for r in &set {
                                    s += r.head().len() + r.seq().len() + r.qual().len();
                                }
                                Some(s)
                            }
                            _ => None,
                        });
                        let s = match res {
                            Some(s) => s,
                            None => fail!(format!("{}/{}/read-failed", f, mode_name), "set read failed at record {}", i),
                        };
                        sink += s;
                        let k = set.len();
                        ensure!(k >= 1, "harness/c18", "harness: empty batch");
                        let dominated = k <= max_recs;
                        max_recs = max_recs.max(k);
                        if warm(i) {
                            if dominated {
                                measured_calls += 1;
                                ensure!(
                                    allocs == 0,
                                    format!("{}/{}/allocation-in-steady-state", f, mode_name),
                                    "read_record_set() into a reused set ({} records starting at record {}, no more than earlier batches; capacity {}) performed {} heap allocation(s) ({} bytes)",
                                    k,
                                    i,
                                    cap,
                                    allocs,
                                    bytes
                                );
                                if let Some(sc) = set_cap {
                                    ensure!(set.buf_capacity() == sc, format!("{}/{}/set-buffer-capacity-changed", f, mode_name), "record set buffer capacity changed from {} to {}", sc, set.buf_capacity());
                                }
                            } else {
                                skipped_nondominated += 1;
                            }
                            set_cap = Some(set.buf_capacity());
                        }
                        i += k;
                    } else {
                        let (res, allocs, bytes) = measured(|| match rdr.next() {
                            Some(Ok(r)) => Some(r.head().len() + r.seq().len() + r.qual().len() + r.id_bytes().len()),
                            _ => None,
                        });
                        match res {
                            Some(s) => sink += s,
                            None => fail!(format!("{}/{}/read-failed", f, mode_name), "record {} could not be read", i),
                        }
                        if warm(i) {
                            measured_calls += 1;
                            ensure!(
                                allocs == 0,
                                format!("{}/{}/allocation-in-steady-state", f, mode_name),
                                "next() call for record {} (capacity {}) performed {} heap allocation(s) ({} bytes)",
                                i,
                                cap,
                                allocs,
                                bytes
                            );
                        }
                        i += 1;
                    }
                    call += 1;
                }
                ensure!(i == total, format!("{}/{}/record-count", f, mode_name), "{} records read, {} expected", i, total);
            }
        }
        std::hint::black_box(sink);
        ensure!(
            pol_log.borrow().is_empty(),
            format!("{}/buffer-capacity-changed", f),
            "every record fits the buffer (largest extent {}, capacity {}), but the policy was asked to grow: {:?}",
            max_e,
            cap,
            pol_log.borrow().iter().take(3).collect::<Vec<_>>()
        );
        ctx.class(&format!("{} {}", f, match mode_name { "next" => "next()", "sets" => "reused record set", _ => "mixed next() / read_record_set() on one reader" }));
        ctx.class_n("measured dominated calls", measured_calls);
        ctx.class_n("seeks back to an earlier record during steady state", seeks_done);
        if c.mixed_term {
            ctx.class("FASTQ records whose sequence and quality line end with different terminators");
        }
        ctx.class_n("skipped non-dominated calls", skipped_nondominated);
        if measured_calls >= 20 {
            ctx.nontrivial(c, c);
        }
        Ok(())
    }
}

// ------------------------------------------------------------------------------------------------
// one record set filled alternately by two readers with different buffer sizes (paired files)

#[derive(Clone, Debug, Serialize, Deserialize, Hash)]
pub struct TwoCase {
    pub format: Format,
    pub n_records: u16,
    pub seq_len: u8,
    pub crlf: bool,
    /// capacities of the two readers = (largest extent + 1) x factor
    pub factor_a: u8,
    pub factor_b: u8,
    /// 1..3 record sets used in rotation by both readers
    pub n_sets: u8,
}

pub struct TwoReaders;

impl Prop for TwoReaders {
    type Case = TwoCase;
    fn strategy(&self, _tier: Tier) -> BoxedStrategy<TwoCase> {
        boxed((gen::format(), 200u16..1200, 0u8..60, any::<bool>(), 1u8..8, 1u8..8, 1u8..4).prop_map(|(format, n_records, seq_len, crlf, factor_a, factor_b, n_sets)| TwoCase { format, n_records, seq_len, crlf, factor_a, factor_b, n_sets }))
    }
    fn check(&self, c: &TwoCase, ctx: &mut Ctx) -> CheckResult {
        let f = fmt_name(c.format);
        let input = super::c09::long_doc(c.format, c.n_records as usize, c.seq_len as usize, 0, c.crlf);
        let m = Model::build(c.format, &input);
        ensure!(m.recs.len() == c.n_records as usize && m.term == Terminal::End, "harness/long-doc", "harness: document does not model as {} records", c.n_records);
        let max_e = m.recs.iter().map(|r| r.extent).max().unwrap_or(0);
        let (cap_a, cap_b) = ((max_e + 1) * c.factor_a as usize + 3, (max_e + 1) * c.factor_b as usize + 3);
        ctx.nontrivial(c, c);
        if cap_a != cap_b {
            ctx.class("the two readers have different buffer sizes");
        }
        let k = (c.n_sets as usize).clamp(1, 3);
        macro_rules! go {
            ($m:ident) => {{
                let mut ra = $m::Reader::with_capacity(&input[..], cap_a);
                let mut rb = $m::Reader::with_capacity(&input[..], cap_b);
                let mut sets: Vec<$m::RecordSet> = (0..k).map(|_| $m::RecordSet::default()).collect();
                let (mut done_a, mut done_b) = (false, false);
                let mut call = 0usize;
                let mut max_recs = vec![0usize; k];
                let mut caps: Vec<Option<usize>> = vec![None; k];
                let mut fills = vec![0usize; k];
                let mut measured_calls = 0u64;
                while !(done_a && done_b) {
                    let use_a = (call % 2 == 0 && !done_a) || done_b;
                    let si = call % k;
                    let set = &mut sets[si];
                    let (res, allocs, bytes) = if use_a { measured(|| ra.read_record_set(set).map(|r| r.is_ok())) } else { measured(|| rb.read_record_set(set).map(|r| r.is_ok())) };
                    match res {
                        None => {
                            if use_a {
                                done_a = true
                            } else {
                                done_b = true
                            }
                        }
                        Some(false) => fail!(format!("{}/two-readers/read-failed", f), "a set read failed on well-formed input"),
                        Some(true) => {
                            let n = set.len();
                            let dominated = n <= max_recs[si];
                            max_recs[si] = max_recs[si].max(n);
                            fills[si] += 1;
                            // warm: this set has been filled at least twice by each reader
                            if fills[si] > 4 && dominated {
                                measured_calls += 1;
                                ensure!(
                                    allocs == 0,
                                    format!("{}/two-readers/allocation-in-steady-state", f),
                                    "read_record_set() of reader {} (capacity {}) into a set that both readers (capacities {} and {}) have filled before performed {} heap allocation(s) ({} bytes)",
                                    if use_a { "A" } else { "B" },
                                    if use_a { cap_a } else { cap_b },
                                    cap_a,
                                    cap_b,
                                    allocs,
                                    bytes
                                );
                                if let Some(cp) = caps[si] {
                                    ensure!(set.buf_capacity() == cp, format!("{}/two-readers/set-buffer-capacity-changed", f), "record set buffer capacity changed from {} to {}", cp, set.buf_capacity());
                                }
                            }
                            if fills[si] > 4 {
                                caps[si] = Some(set.buf_capacity());
                            }
                        }
                    }
                    call += 1;
                    if call > 100_000 {
                        fail!(format!("{}/two-readers/endless", f), "more than 100 000 set reads");
                    }
                }
                ctx.class_n("measured set reads (two readers)", measured_calls);
            }};
        }
        match c.format {
            Format::Fasta => go!(fasta),
            Format::Fastq => go!(fastq),
        }
        Ok(())
    }
}

pub const RULE: &str = "cases = (format, 100..1500 records of uniform or mildly varying shape - in 1 of 3 cases 40..900 records of 200..3000 bases (FASTA line width 1..100, i.e. up to 3000 lines per record) and / or tiny records between the others -, LF/CRLF, capacity = (largest extent + 1) x factor 1..5 + slack, chunk script, mode next() / one reused RecordSet / a generated mixture of both on one reader; optionally a few seeks back to earlier records in the second half; FASTQ optionally with different terminators on sequence and quality line). Every call after a warm-up of max(8 records, 2 buffer capacities) whose observable shape is dominated by what the same reader / set already handled (lines per record, records per set, lines per slot; records per set AND total lines by one single earlier batch, total lines per set) is measured with a counting global allocator (thread-local window around the call and the accessors head/seq/qual/seq_lines): it must perform 0 allocations; the record-set buffer capacity and the reader capacity (policy never asked) stay unchanged. Non-dominated calls are skipped and counted. Non-trivial = >= 20 measured dominated calls in the case. Distinct = hash(case). Sub-check two-readers-one-set: two readers with different buffer sizes over a uniform document fill 1..3 shared record sets alternately (paired files); once a set has been filled more than four times, a fill that delivers no more records than an earlier one performs no allocation and leaves the set's buffer capacity unchanged.";

pub fn run(tier: Tier) -> i32 {
    let mut run = Run::new("C18", tier, "exploration");
    let p = NoAlloc;
    run.replays("steady-state-allocations", &p);
    run.generated("steady-state-allocations", &p, tier.pick(40_000, 200_000));
    let t = TwoReaders;
    run.replays("two-readers-one-set", &t);
    run.generated("two-readers-one-set", &t, tier.pick(6_000, 60_000));
    run.finish(
        RULE,
        &["allocations are seen through #[global_allocator]; other threads are excluded by the thread-local window", "full_seq()/owned_seq()/to_owned_record() allocate by contract and are not measured"],
    )
}

pub fn replay(run: &mut Run, file: &std::path::Path) -> Option<bool> {
    run.replay_file("steady-state-allocations", &NoAlloc, file, true).or_else(|| run.replay_file("two-readers-one-set", &TwoReaders, file, true))
}
