//! "Large coordinates" sub-checks of C05 and C17: line numbers beyond 65 535 and beyond 2^32, byte offsets beyond
//! 4 GiB. The regions where a narrowed integer (u16 / u32 counters, "compact" positions) first shows.
//!
//! * `LargeCoords`: real documents of ~70..300 kB whose records of interest lie behind more than 65 536 lines (blank
//!   lines, tiny records, or one record with that many sequence lines); oracle = the reference model.
//! * `Beyond4G`: a lazily generated periodic source (nothing is held in memory) of more than 4 GiB; oracle = the
//!   analytic position of the k-th record. Few cases, each reads 4.3..6.5 GB.

use crate::driver::{fa_err, fa_norm, fq_err, fq_norm};
use crate::engine::{boxed, CheckResult, Ctx, Prop, Tier};
use crate::light::fmt_name;
use crate::model::{Format, Model, NErr, Terminal};
use crate::util::B;
use crate::{ensure, fail};
use proptest::prelude::*;
use seq_io::{fasta, fastq};
use serde_derive::{Deserialize, Serialize};
use std::io::{self, Read, Seek, SeekFrom};

// ------------------------------------------------------------------------------------------------
// more than 65 536 lines in front of the records of interest

#[derive(Clone, Debug, Serialize, Deserialize, Hash)]
pub struct LargeCase {
    pub format: Format,
    /// 0 = prefix of blank lines (FASTA) / of tiny records (FASTQ); 1 = prefix is ONE record with that many
    /// sequence lines (FASTA) / tiny records (FASTQ)
    pub kind: u8,
    /// number of lines of the prefix (the FASTQ prefix has 4 lines per tiny record)
    pub lines: u32,
    pub crlf: bool,
    pub cap: usize,
    pub n_tail: u8,
    /// the document ends with a format error (FASTA: an invalid start after the blank lines, no records at all;
    /// FASTQ: the last record has a wrong separator byte)
    pub defect: bool,
}

pub fn large_doc(c: &LargeCase) -> Vec<u8> {
    let t: &[u8] = if c.crlf { b"\r\n" } else { b"\n" };
    let mut v = Vec::new();
    match c.format {
        Format::Fasta => {
            if c.kind % 2 == 0 {
                for _ in 0..c.lines {
                    v.extend_from_slice(t);
                }
                if c.defect {
                    v.extend_from_slice(b"x>oops");
                    v.extend_from_slice(t);
                    return v;
                }
            } else {
                v.extend_from_slice(b">many lines");
                v.extend_from_slice(t);
                for i in 0..c.lines.saturating_sub(1) {
                    v.push(b"ACGT"[(i & 3) as usize]);
                    v.extend_from_slice(t);
                }
            }
            for i in 0..c.n_tail as usize {
                v.extend_from_slice(format!(">t{} tail", i).as_bytes());
                v.extend_from_slice(t);
                let seq: Vec<u8> = (0..10 + 3 * i).map(|k| b"ACGT"[(k + i) & 3]).collect();
                for l in seq.chunks(7) {
                    v.extend_from_slice(l);
                    v.extend_from_slice(t);
                }
            }
        }
        Format::Fastq => {
            for _ in 0..c.lines / 4 {
                v.extend_from_slice(b"@p");
                v.extend_from_slice(t);
                v.extend_from_slice(b"A");
                v.extend_from_slice(t);
                v.extend_from_slice(b"+");
                v.extend_from_slice(t);
                v.extend_from_slice(b"I");
                v.extend_from_slice(t);
            }
            let n = c.n_tail.max(1) as usize;
            for i in 0..n {
                let len = 10 + 3 * i;
                v.extend_from_slice(format!("@t{} tail", i).as_bytes());
                v.extend_from_slice(t);
                v.extend((0..len).map(|k| b"ACGT"[(k + i) & 3]));
                v.extend_from_slice(t);
                v.push(if c.defect && i + 1 == n { b'-' } else { b'+' });
                v.extend_from_slice(t);
                v.extend(std::iter::repeat(b'I').take(len));
                v.extend_from_slice(t);
            }
        }
    }
    v
}

/// `errors = false`: positions and seeks (C05); `errors = true`: the terminal error's fields (C17)
pub struct LargeCoords {
    pub errors: bool,
}

impl Prop for LargeCoords {
    type Case = LargeCase;
    fn strategy(&self, _tier: Tier) -> BoxedStrategy<LargeCase> {
        let defect = self.errors;
        let lines = prop_oneof![4 => 65_520u32..65_560, 2 => 70_000u32..70_100, 1 => 131_060u32..131_090, 1 => 262_130u32..262_160];
        let cap = prop_oneof![2 => 3usize..200, 2 => 200usize..5000, 2 => Just(65536usize), 1 => Just(1usize << 20)];
        boxed((crate::gen::format(), 0u8..2, lines, any::<bool>(), cap, 2u8..6).prop_map(move |(format, kind, lines, crlf, cap, n_tail)| LargeCase { format, kind, lines, crlf, cap, n_tail, defect }))
    }

    fn check(&self, c: &LargeCase, ctx: &mut Ctx) -> CheckResult {
        let f = fmt_name(c.format);
        let doc = large_doc(c);
        let m = Model::build(c.format, &doc);
        ctx.nontrivial(c, c);
        ctx.class(match (c.format, c.kind % 2) {
            (Format::Fasta, 0) => "prefix: blank lines",
            (Format::Fasta, _) => "prefix: one record with > 65 535 sequence lines",
            (Format::Fastq, _) => "prefix: tiny records",
        });
        if c.lines > 131_072 {
            ctx.class("more than 131 072 lines");
        }
        macro_rules! go {
            ($m:ident, $norm:ident, $err:ident, $getpos:expr) => {{
                let mut rdr = $m::Reader::with_capacity(io::Cursor::new(&doc[..]), c.cap);
                // 1. sequential: records and positions equal the model's
                let mut i = 0usize;
                let term: Option<NErr> = loop {
                    match rdr.next() {
                        None => break None,
                        Some(Err(e)) => break Some($err(&e)),
                        Some(Ok(r)) => {
                            ensure!(i < m.recs.len(), format!("{}/large/extra-record", f), "record {} returned, the input has only {}", i, m.recs.len());
                            let got = $norm(&r);
                            ensure!(got == m.recs[i].rec, format!("{}/large/wrong-record", f), "record {}: {:?}, expected {:?}", i, B::new(&got.head), B::new(&m.recs[i].rec.head));
                        }
                    }
                    let p: (u64, u64) = $getpos(&rdr);
                    ensure!(
                        p == (m.recs[i].line as u64, m.recs[i].byte as u64),
                        format!("{}/large/position-differs", f),
                        "after record {}: position (line {}, byte {}), true location (line {}, byte {})",
                        i,
                        p.0,
                        p.1,
                        m.recs[i].line,
                        m.recs[i].byte
                    );
                    i += 1;
                };
                ensure!(i == m.recs.len(), format!("{}/large/records-lost", f), "{} records returned, the input has {}", i, m.recs.len());
                match (&m.term, &term) {
                    (Terminal::End, None) => {}
                    (Terminal::Err(w), Some(g)) => ensure!(w == g, format!("{}/large/{}/wrong-fields", f, w.kind()), "reported {:?}, the offending record is described by {:?}", g, w),
                    (w, g) => fail!(format!("{}/large/wrong-terminal", f), "reading ended with {:?}, the model says {:?}", g, w),
                }
                // 2. seeks to positions beyond line 65 535 (and back to the start)
                if !m.recs.is_empty() {
                    let n = m.recs.len();
                    for &t in &[n - 1, n.saturating_sub(c.n_tail as usize), 0, n / 2, n - 1] {
                        let t = t.min(n - 1);
                        let pos = $m::Position::new(m.recs[t].line as u64, m.recs[t].byte as u64);
                        ensure!(rdr.seek(&pos).is_ok(), format!("{}/large/seek-failed", f), "seek to record {} (line {}, byte {}) failed", t, m.recs[t].line, m.recs[t].byte);
                        for j in t..(t + 3).min(n) {
                            match rdr.next() {
                                Some(Ok(r)) => {
                                    let got = $norm(&r);
                                    ensure!(got == m.recs[j].rec, format!("{}/large/wrong-record-after-seek", f), "after seeking to record {}: read {:?}, expected record {} = {:?}", t, B::new(&got.head), j, B::new(&m.recs[j].rec.head));
                                }
                                other => fail!(format!("{}/large/no-record-after-seek", f), "after seeking to record {}: next() gave {:?} instead of record {}", t, other.map(|x| x.map(|_| ()).map_err(|e| e.to_string())), j),
                            }
                            let p: (u64, u64) = $getpos(&rdr);
                            ensure!(
                                p == (m.recs[j].line as u64, m.recs[j].byte as u64),
                                format!("{}/large/position-differs-after-seek", f),
                                "after seeking to record {} and reading record {}: position (line {}, byte {}), true location (line {}, byte {})",
                                t,
                                j,
                                p.0,
                                p.1,
                                m.recs[j].line,
                                m.recs[j].byte
                            );
                        }
                    }
                    ctx.class("seeks to positions beyond line 65 535");
                }
            }};
        }
        match c.format {
            Format::Fasta => go!(fasta, fa_norm, fa_err, |r: &fasta::Reader<io::Cursor<&[u8]>>| r.position().map_or((0, 0), |p| (p.line(), p.byte()))),
            Format::Fastq => go!(fastq, fq_norm, fq_err, |r: &fastq::Reader<io::Cursor<&[u8]>>| (r.position().line(), r.position().byte())),
        }
        Ok(())
    }
}

// ------------------------------------------------------------------------------------------------
// byte offsets beyond 4 GiB, line numbers beyond 2^32: a generated source

/// Concatenation of segments, each a unit repeated n times; nothing but the units is held in memory.
pub struct SegSource {
    segs: Vec<(Vec<u8>, u64)>,
    starts: Vec<u64>,
    total: u64,
    pos: u64,
    /// (segment, offset within the unit, width): that field of every unit shows the unit's index in decimal, so
    /// that a record read from the wrong place is recognised
    index_field: Option<(usize, usize, usize)>,
}

impl SegSource {
    pub fn new(segs: Vec<(Vec<u8>, u64)>) -> SegSource {
        let mut starts = Vec::new();
        let mut t = 0u64;
        for (u, n) in &segs {
            starts.push(t);
            t += u.len() as u64 * n;
        }
        SegSource { segs, starts, total: t, pos: 0, index_field: None }
    }

    pub fn with_index_field(mut self, seg: usize, offset: usize, width: usize) -> SegSource {
        self.index_field = Some((seg, offset, width));
        self
    }
}

impl Read for SegSource {
    fn read(&mut self, buf: &mut [u8]) -> io::Result<usize> {
        let mut done = 0usize;
        while done < buf.len() && self.pos < self.total {
            let si = match self.starts.binary_search(&self.pos) {
                Ok(i) => i,
                Err(i) => i - 1,
            };
            // (empty segments share a start offset: take the last one starting here)
            let mut si = si;
            while si + 1 < self.starts.len() && self.starts[si + 1] <= self.pos {
                si += 1;
            }
            let (unit, n) = &self.segs[si];
            let seg_end = self.starts[si] + unit.len() as u64 * n;
            let off = ((self.pos - self.starts[si]) % unit.len() as u64) as usize;
            let k = (unit.len() - off).min(buf.len() - done).min((seg_end - self.pos) as usize);
            buf[done..done + k].copy_from_slice(&unit[off..off + k]);
            if let Some((fseg, foff, fw)) = self.index_field {
                if fseg == si && off < foff + fw && off + k > foff {
                    // patch the part of the index field that lies in the copied range
                    let unit_no = (self.pos - self.starts[si]) / unit.len() as u64;
                    let digits = format!("{:0width$}", unit_no, width = fw).into_bytes();
                    for j in foff.max(off)..(foff + fw).min(off + k) {
                        buf[done + j - off] = digits[j - foff];
                    }
                }
            }
            done += k;
            self.pos += k as u64;
        }
        Ok(done)
    }
}

impl Seek for SegSource {
    fn seek(&mut self, to: SeekFrom) -> io::Result<u64> {
        let t = match to {
            SeekFrom::Start(o) => o as i128,
            SeekFrom::Current(d) => self.pos as i128 + d as i128,
            SeekFrom::End(d) => self.total as i128 + d as i128,
        };
        if t < 0 {
            return Err(io::Error::new(io::ErrorKind::InvalidInput, "seek before the start"));
        }
        self.pos = t as u64;
        Ok(self.pos)
    }
}

#[derive(Clone, Debug, Serialize, Deserialize, Hash)]
pub struct BigCase {
    pub format: Format,
    /// 0 = records with one long sequence line each, total > 4 GiB;
    /// 1 = FASTA only: 2^32 + 3 blank lines, then records (line numbers beyond 2^32);
    /// 2 = FASTQ only: 2^30 + 2 tiny records (line numbers beyond 2^32, bytes beyond 6 GiB)
    pub variant: u8,
    pub crlf: bool,
    /// sequence length of the long records
    pub seq_len: u32,
    pub cap: usize,
    /// variant 0: the record length is made a power of two (2^16 or 2^20 bytes), so that there are records exactly
    /// 2^32 bytes apart (seek distances that only differ in the upper 32 bits)
    #[serde(default)]
    pub pow2: bool,
}

pub struct Beyond4G {
    pub errors: bool,
    pub variants: &'static [u8],
}

const FOUR_G: u64 = 1 << 32;

impl Prop for Beyond4G {
    type Case = BigCase;
    fn strategy(&self, _tier: Tier) -> BoxedStrategy<BigCase> {
        let vs: Vec<u8> = self.variants.to_vec();
        let errors = self.errors;
        boxed(
            (prop::sample::select(vs), any::<bool>(), any::<bool>(), prop_oneof![1 => 60_000u32..70_000, 2 => 500_000u32..1_100_000], prop_oneof![1 => Just(1usize << 16), 1 => Just(1usize << 22)], prop::bool::weighted(0.7)).prop_map(move |(variant, fq, crlf, seq_len, cap, pow2)| {
                let format = match variant {
                    1 => Format::Fasta,
                    2 => Format::Fastq,
                    _ => {
                        // (a FASTA input cannot have a format error behind a record: any line is sequence)
                        if fq || errors {
                            Format::Fastq
                        } else {
                            Format::Fasta
                        }
                    }
                };
                BigCase { format, variant, crlf, seq_len, cap, pow2 }
            }),
        )
    }

    fn check(&self, c: &BigCase, ctx: &mut Ctx) -> CheckResult {
        let f = fmt_name(c.format);
        let t: &[u8] = if c.crlf { b"\r\n" } else { b"\n" };
        ctx.nontrivial(c, c);
        // the unit record, its number of lines, and the prefix
        let head: &[u8] = b"rec000000000000 with a description";
        let mut seq_len = if c.variant == 0 { c.seq_len as usize } else { 1 };
        if c.variant == 0 && c.pow2 {
            // total unit length 2^16 (sequence about 60 kB) or 2^20
            let target: usize = if seq_len < 100_000 { 1 << 16 } else { 1 << 20 };
            let fixed = 1 + head.len() + t.len() + t.len();
            seq_len = match c.format {
                Format::Fasta => target - fixed,
                // '@' head t seq t '+' t qual t
                Format::Fastq => {
                    let fixed = fixed + 1 + 2 * t.len();
                    (target - fixed) / 2
                }
            };
        }
        let mut unit = Vec::with_capacity(2 * seq_len + 64);
        let lines_per_unit: u64;
        match c.format {
            Format::Fasta => {
                unit.push(b'>');
                unit.extend_from_slice(head);
                unit.extend_from_slice(t);
                unit.extend((0..seq_len).map(|k| b"ACGT"[k & 3]));
                unit.extend_from_slice(t);
                lines_per_unit = 2;
            }
            Format::Fastq => {
                unit.push(b'@');
                unit.extend_from_slice(head);
                unit.extend_from_slice(t);
                unit.extend((0..seq_len).map(|k| b"ACGT"[k & 3]));
                unit.extend_from_slice(t);
                unit.push(b'+');
                unit.extend_from_slice(t);
                unit.extend(std::iter::repeat(b'I').take(seq_len));
                unit.extend_from_slice(t);
                lines_per_unit = 4;
            }
        }
        if c.variant == 0 && c.pow2 && c.format == Format::Fastq && unit.len() % 2 == 1 {
            // (an odd remainder: lengthen the header by one byte instead - cannot happen with the fixed head, kept as a guard)
            fail!("harness/beyond-4g", "unit length {} is not a power of two", unit.len());
        }
        let u = unit.len() as u64;
        if c.variant == 0 && c.pow2 {
            ensure!(u.is_power_of_two(), "harness/beyond-4g", "harness: unit length {} is not a power of two", u);
            ctx.class("record length is a power of two (records exactly 2^32 bytes apart exist)");
        }
        let (prefix_lines, prefix_bytes, n_units): (u64, u64, u64) = match c.variant {
            0 => (0, 0, FOUR_G / u + 6),
            1 => (FOUR_G + 3, (FOUR_G + 3) * t.len() as u64, if self.errors { 0 } else { 5 }),
            _ => (0, 0, (1 << 30) + 2),
        };
        ctx.class(match c.variant {
            0 => "byte offsets beyond 4 GiB (long records)",
            1 => "line numbers beyond 2^32 (FASTA blank lines)",
            _ => "line numbers beyond 2^32 and byte offsets beyond 4 GiB (2^30 tiny FASTQ records)",
        });
        let mut segs = Vec::new();
        if prefix_lines > 0 {
            segs.push((t.to_vec(), prefix_lines));
        }
        if n_units > 0 {
            segs.push((unit.clone(), n_units));
        }
        // a complete four-line group (FASTQ) / a first non-blank line (FASTA) with a wrong start byte
        let bad_tail: &[u8] = if c.format == Format::Fastq { b"?bad\nA\n+\nI\n" } else { b"?not a record\n" };
        if self.errors {
            // a format error at the very end: line number / id must still be right
            segs.push((bad_tail.to_vec(), 1));
        }
        let rec_seg = if prefix_lines > 0 { 1 } else { 0 };
        let src = if n_units > 0 { SegSource::new(segs).with_index_field(rec_seg, 4, 12) } else { SegSource::new(segs) };
        let head_of = |k: u64| -> Vec<u8> { format!("rec{:012} with a description", k).into_bytes() };
        let loc = |k: u64| -> (u64, u64) { (prefix_lines + k * lines_per_unit + 1, prefix_bytes + k * u) };
        let seq_of = &unit[1 + head.len() + t.len()..1 + head.len() + t.len() + seq_len];
        macro_rules! go {
            ($m:ident, $getpos:expr, $err:ident) => {{
                use $m::Record;
                let mut rdr = $m::Reader::with_capacity(src, c.cap);
                let mut k = 0u64;
                let mut want_head = head_of(0);
                let term: Option<NErr> = loop {
                    match rdr.next() {
                        None => break None,
                        Some(Err(e)) => break Some($err(&e)),
                        Some(Ok(r)) => {
                            ensure!(k < n_units, format!("{}/beyond-4g/extra-record", f), "record {} returned, the input has only {}", k, n_units);
                            // cheap check always, full comparison near the ends and every 4096th record
                            let full = k < 3 || k + 8 >= n_units || k % 4096 == 0;
                            let ok = r.head() == &want_head[..] && if full { &r.seq()[..] == seq_of } else { r.seq().len() >= seq_len };
                            ensure!(ok, format!("{}/beyond-4g/wrong-record", f), "record {}: head {:?}, {} sequence bytes; expected head {:?}, {} sequence bytes", k, B::new(r.head()), r.seq().len(), B::new(&want_head), seq_len);
                        }
                    }
                    let p: (u64, u64) = $getpos(&rdr);
                    ensure!(p == loc(k), format!("{}/beyond-4g/position-differs", f), "after record {}: position (line {}, byte {}), true location (line {}, byte {})", k, p.0, p.1, loc(k).0, loc(k).1);
                    k += 1;
                    // decimal increment of the 12-digit index in the expected header
                    for d in want_head[3..15].iter_mut().rev() {
                        if *d == b'9' {
                            *d = b'0';
                        } else {
                            *d += 1;
                            break;
                        }
                    }
                };
                ensure!(k == n_units, format!("{}/beyond-4g/records-lost", f), "{} records returned, the input has {}", k, n_units);
                if self.errors {
                    let want_line = prefix_lines + n_units * lines_per_unit + 1;
                    match &term {
                        Some(NErr::InvalidStart { line, found, .. }) => ensure!(*line == want_line && *found == b'?', format!("{}/beyond-4g/invalid-start/wrong-fields", f), "reported InvalidStart at line {} found {:?}; the offending line is {} and starts with '?'", line, *found as char, want_line),
                        other => fail!(format!("{}/beyond-4g/error-missed", f), "the input ends with an invalid record at line {}, reading ended with {:?}", want_line, other),
                    }
                } else {
                    ensure!(term.is_none(), format!("{}/beyond-4g/spurious-error", f), "well-formed input, reading ended with {:?}", term);
                    // seeks: beyond 4 GiB (or 2^32 lines), back to the start, to the very last record
                    let mut targets: Vec<u64> = vec![n_units - 2, 1, n_units - 1, n_units / 2 + 1];
                    if c.variant == 0 && c.pow2 {
                        // after each of these seeks two records are read, so the reader stands on target + 1; the next
                        // target is exactly 2^32 bytes (+ one or two records) away: distances that differ from an
                        // in-buffer distance only in their upper 32 bits
                        let d = FOUR_G / u;
                        targets = vec![1, 1 + 1 + d, 3 + d, 3, 2 + d + 1, 2, n_units - 1, n_units - 1 - d, n_units - 2];
                    }
                    for &j in &targets {
                        let (line, byte) = loc(j);
                        ensure!(rdr.seek(&$m::Position::new(line, byte)).is_ok(), format!("{}/beyond-4g/seek-failed", f), "seek to record {} (line {}, byte {}) failed", j, line, byte);
                        for jj in j..(j + 2).min(n_units) {
                            match rdr.next() {
                                Some(Ok(r)) => ensure!(r.head() == &head_of(jj)[..] && &r.seq()[..] == seq_of, format!("{}/beyond-4g/wrong-record-after-seek", f), "after seeking to record {} (byte {}): read a record with head {:?} ({} sequence bytes), expected record {} = {:?}", j, byte, B::new(r.head()), r.seq().len(), jj, B(head_of(jj))),
                                other => fail!(format!("{}/beyond-4g/no-record-after-seek", f), "after seeking to record {} (line {}, byte {}): next() gave {:?}", j, line, byte, other.map(|x| x.map(|_| ()).map_err(|e| e.to_string()))),
                            }
                            let p: (u64, u64) = $getpos(&rdr);
                            ensure!(p == loc(jj), format!("{}/beyond-4g/position-differs-after-seek", f), "after seeking to record {} and reading record {}: position (line {}, byte {}), true location (line {}, byte {})", j, jj, p.0, p.1, loc(jj).0, loc(jj).1);
                        }
                    }
                }
            }};
        }
        match c.format {
            Format::Fasta => go!(fasta, |r: &fasta::Reader<SegSource>| r.position().map_or((0, 0), |p| (p.line(), p.byte())), fa_err),
            Format::Fastq => go!(fastq, |r: &fastq::Reader<SegSource>| (r.position().line(), r.position().byte()), fq_err),
        }
        Ok(())
    }
}

/// The fixed list of beyond-4-GiB cases of a tier (both formats and both record-length kinds are always present;
/// line terminator, sequence length and capacity vary with the seed), run in parallel.
pub fn run_beyond(run: &mut crate::engine::Run, errors: bool) {
    let seed = run.seed;
    let quick = run.tier == Tier::Quick;
    let mut cases: Vec<BigCase> = Vec::new();
    let mut push = |format: Format, variant: u8, pow2: bool, i: u64| {
        let x = seed.wrapping_mul(0x9e3779b97f4a7c15).wrapping_add(i.wrapping_mul(0xd1342543de82ef95));
        let seq_len = if (x >> 8) & 1 == 0 { 60_000 + ((x >> 16) % 10_000) as u32 } else { 500_000 + ((x >> 16) % 600_000) as u32 };
        cases.push(BigCase { format, variant, crlf: (x >> 4) & 1 == 1, seq_len, cap: if (x >> 5) & 1 == 1 { 1 << 16 } else { 1 << 22 }, pow2 });
    };
    if errors {
        // (only FASTQ input can have a format error behind records)
        push(Format::Fastq, 0, true, 0);
        push(Format::Fastq, 0, false, 1);
        if !quick {
            push(Format::Fastq, 0, true, 2);
            push(Format::Fasta, 1, false, 3);
            push(Format::Fastq, 2, false, 4);
        }
    } else {
        push(Format::Fasta, 0, true, 0);
        push(Format::Fastq, 0, true, 1);
        push(if seed & 1 == 0 { Format::Fasta } else { Format::Fastq }, 0, false, 2);
        if !quick {
            for i in 3..9 {
                push(if i & 1 == 0 { Format::Fasta } else { Format::Fastq }, 0, i % 3 != 0, i);
            }
            push(Format::Fasta, 1, false, 9);
            push(Format::Fasta, 1, false, 10);
            push(Format::Fastq, 2, false, 11);
        }
    }
    let prop = Beyond4G { errors, variants: &[0] };
    // (each case reads 4..7 GB: minutes on a loaded machine; the per-case watchdog is widened for this sub-check)
    let old_limit = std::env::var("VERIF_CASE_TIMEOUT").ok();
    std::env::set_var("VERIF_CASE_TIMEOUT", "2400");
    run.replays("beyond-4-gib", &prop);
    let n = cases.len() as u64;
    run.exhaustive_par(
        "beyond-4-gib",
        &format!("{} fixed configurations of a generated source of more than 4 GiB (formats x record length a power of two or not x capacity 64 KiB / 4 MiB x LF / CRLF{})", n, if quick { "" } else { "; plus 2^32 + 3 blank FASTA lines and 2^30 + 2 tiny FASTQ records" }),
        n,
        |i, ctx| {
            let c = &cases[i as usize];
            ctx.eval();
            crate::engine::guarded(|| prop.check(c, ctx)).map_err(|f| (serde_json::to_value(c).unwrap_or_default(), f))
        },
    );
    match old_limit {
        Some(v) => std::env::set_var("VERIF_CASE_TIMEOUT", v),
        None => std::env::remove_var("VERIF_CASE_TIMEOUT"),
    }
}

pub const RULE_LARGE: &str = "Sub-check large-coordinates: documents whose last 2..5 records lie behind 65 520..262 160 lines (FASTA: blank lines, or one record with that many one-base sequence lines; FASTQ: tiny records), LF / CRLF, capacities 3 .. 1 MiB: every record and every reported position equals the model's, seeks to the last records (line > 65 535), back to the first and to the middle return the right records with the right positions; C17 variant: the document ends in a format error whose line number exceeds 65 535 and all error fields equal the model's. Sub-check beyond-4-GiB: a generated periodic source (never held in memory) of more than 4 GiB of records with one long line each (quick tier: 2 cases; thorough tier also 2^32 + 3 blank FASTA lines and 2^30 + 2 tiny FASTQ records, i.e. line numbers beyond 2^32): every record carries its index in the header; positions follow the analytic location of the k-th record, seeks to positions beyond 4 GiB / 2^32 lines return the record with the right index - including (record length a power of two) seeks whose distance from the current position is exactly 2^32 bytes plus an in-buffer distance -, the C17 variant ends in an invalid record whose reported line is exact.";
