//! C10 — FASTA writing round-trips and wraps at the requested width. (DESIGN.md §4 C10)

use crate::engine::{boxed, CheckResult, Ctx, Prop, Run, Tier};
use crate::util::{idx, B};
use crate::{ensure, fail};
use proptest::collection::vec;
use proptest::prelude::*;
use seq_io::fasta::{self, Record};
use serde_derive::{Deserialize, Serialize};

#[derive(Clone, Debug, Serialize, Deserialize, Hash)]
pub struct WRec {
    pub id: B,
    pub desc: Option<B>,
    pub seq: B,
    /// cut points (mapped onto 0..=len) and whether an empty chunk is inserted there
    pub cuts: Vec<(u16, bool)>,
    pub entry: u8,
    /// line width used to build the RefRecord for the RefRecord entry points
    pub src_width: u8,
    /// Some(k): before this record is written, the same call is made on a writer that fails after k bytes
    /// (a full disk, a closed pipe); the caller carries on with the next write
    #[serde(default)]
    pub pre_fail: Option<u16>,
}

/// An `io::Write` that accepts `left` bytes and then fails.
pub struct FailSink {
    pub left: usize,
    pub failed: bool,
}

impl std::io::Write for FailSink {
    fn write(&mut self, buf: &[u8]) -> std::io::Result<usize> {
        if buf.is_empty() {
            return Ok(0);
        }
        if self.left == 0 {
            self.failed = true;
            return Err(std::io::Error::new(std::io::ErrorKind::Other, "verif: no space left on device"));
        }
        let k = buf.len().min(self.left);
        self.left -= k;
        Ok(k)
    }
    fn flush(&mut self) -> std::io::Result<()> {
        Ok(())
    }
}

#[derive(Clone, Debug, Serialize, Deserialize, Hash)]
pub struct Case {
    pub recs: Vec<WRec>,
    pub wrap: usize,
    /// the io::Write the records are written to: (0, _) = Vec, (1, n) = accepts at most n bytes per write(),
    /// (2, n) = a write() never crosses a block boundary of n bytes, (3, n) = every (n % 5 + 2)-th write() call is
    /// interrupted (ErrorKind::Interrupted) and has to be retried
    #[serde(default)]
    pub sink: (u8, u16),
}

/// An `io::Write` that may accept only part of the buffer (as pipes, sockets and size-limited writers do).
pub struct Sink {
    pub data: Vec<u8>,
    kind: u8,
    n: usize,
    pub short_writes: usize,
    calls: usize,
    pub interrupted: usize,
}

impl Sink {
    pub fn new(kind: (u8, u16)) -> Sink {
        Sink { data: Vec::new(), kind: kind.0 % 4, n: (kind.1 as usize).max(1), short_writes: 0, calls: 0, interrupted: 0 }
    }
}

impl std::io::Write for Sink {
    fn write(&mut self, buf: &[u8]) -> std::io::Result<usize> {
        self.calls += 1;
        if self.kind == 3 && self.calls % (self.n % 5 + 2) == 1 {
            // a signal arrived: the caller has to retry (as write_all does)
            self.interrupted += 1;
            return Err(std::io::Error::new(std::io::ErrorKind::Interrupted, "verif: interrupted write"));
        }
        let k = match self.kind {
            0 | 3 => buf.len(),
            1 => buf.len().min(self.n),
            _ => buf.len().min(self.n - self.data.len() % self.n),
        };
        if k < buf.len() {
            self.short_writes += 1;
        }
        self.data.extend_from_slice(&buf[..k]);
        Ok(k)
    }
    fn flush(&mut self) -> std::io::Result<()> {
        Ok(())
    }
}

pub const N_ENTRIES: u8 = 11;
pub const ENTRY_NAMES: [&str; 11] = [
    "write_to",
    "write_parts",
    "write_wrap",
    "write_head+write_seq",
    "write_id_desc+write_wrap_seq",
    "write_head+write_seq_iter",
    "write_head+write_wrap_seq_iter",
    "OwnedRecord::write",
    "OwnedRecord::write_wrap",
    "RefRecord::write",
    "RefRecord::write_wrap",
];

fn is_wrapped(entry: u8) -> bool {
    matches!(entry, 2 | 4 | 6 | 8 | 10)
}

fn full_head(r: &WRec) -> Vec<u8> {
    let mut h = r.id.0.clone();
    if let Some(d) = &r.desc {
        h.push(b' ');
        h.extend_from_slice(d);
    }
    h
}

pub fn chunks_of<'a>(seq: &'a [u8], cuts: &[(u16, bool)]) -> Vec<&'a [u8]> {
    let mut pts: Vec<(usize, bool)> = cuts.iter().map(|(c, e)| (idx(*c, seq.len() + 1), *e)).collect();
    pts.sort();
    let mut out = Vec::new();
    let mut last = 0;
    for (p, empty) in pts {
        out.push(&seq[last..p]);
        if empty {
            out.push(&seq[p..p]);
        }
        last = p;
    }
    out.push(&seq[last..]);
    out
}

fn write_one<W: std::io::Write>(out: &mut W, r: &WRec, wrap: usize) -> CheckResult {
    let head = full_head(r);
    let chunks = chunks_of(&r.seq, &r.cuts);
    let io = |res: std::io::Result<()>| -> CheckResult {
        match res {
            Ok(()) => Ok(()),
            Err(e) => Err(crate::engine::Failure::new("fasta-write/io-error", format!("writing to a Vec failed: {}", e))),
        }
    };
    match r.entry % N_ENTRIES {
        0 => io(fasta::write_to(&mut *out, &head, &r.seq)),
        1 => io(fasta::write_parts(&mut *out, &r.id, r.desc.as_ref().map(|d| &d.0[..]), &r.seq)),
        2 => io(fasta::write_wrap(&mut *out, &r.id, r.desc.as_ref().map(|d| &d.0[..]), &r.seq, wrap)),
        3 => {
            io(fasta::write_head(&mut *out, &head))?;
            io(fasta::write_seq(&mut *out, &r.seq))
        }
        4 => {
            io(fasta::write_id_desc(&mut *out, &r.id, r.desc.as_ref().map(|d| &d.0[..])))?;
            io(fasta::write_wrap_seq(&mut *out, &r.seq, wrap))
        }
        5 => {
            io(fasta::write_head(&mut *out, &head))?;
            io(fasta::write_seq_iter(&mut *out, chunks.iter().cloned()))
        }
        6 => {
            io(fasta::write_head(&mut *out, &head))?;
            io(fasta::write_wrap_seq_iter(&mut *out, chunks.iter().cloned(), wrap))
        }
        7 => io(fasta::OwnedRecord { head: head.clone(), seq: r.seq.0.clone() }.write(&mut *out)),
        8 => io(fasta::OwnedRecord { head: head.clone(), seq: r.seq.0.clone() }.write_wrap(&mut *out, wrap)),
        e => {
            // RefRecord obtained by parsing a multi-line rendering of the same record
            let w = (r.src_width as usize).max(1);
            // (CRLF rendering when the pre-failing-write option is odd or absent and the width is even: a cheap, replayable selector)
            let crlf = r.src_width % 2 == 0;
            let t: &[u8] = if crlf { b"\r\n" } else { b"\n" };
            let mut text = vec![b'>'];
            text.extend_from_slice(&head);
            text.extend_from_slice(t);
            for l in r.seq.chunks(w) {
                text.extend_from_slice(l);
                text.extend_from_slice(t);
            }
            let mut rdr = fasta::Reader::new(&text[..]);
            let rec = match rdr.next() {
                Some(Ok(rec)) => rec,
                _ => fail!("fasta-write/setup", "cannot parse the source rendering {:?}", B(text.clone())),
            };
            if e == 9 {
                io(rec.write(&mut *out))
            } else {
                io(rec.write_wrap(&mut *out, wrap))
            }
        }
    }
}

pub fn check_case(c: &Case, ctx: &mut Ctx) -> CheckResult {
    let mut sink = Sink::new(c.sink);
    let mut spans = Vec::new();
    for r in &c.recs {
        if let Some(k) = r.pre_fail {
            let mut f = FailSink { left: k as usize, failed: false };
            let _ = write_one(&mut f, r, c.wrap);
            if f.failed {
                ctx.class("a write that failed with an I/O error precedes the write");
            }
        }
        let s = sink.data.len();
        write_one(&mut sink, r, c.wrap)?;
        spans.push((s, sink.data.len()));
        ctx.class(&format!("entry: {}", ENTRY_NAMES[(r.entry % N_ENTRIES) as usize]));
    }
    if sink.short_writes > 0 {
        ctx.class("writer accepted only part of a buffer (short writes)");
    }
    if sink.interrupted > 0 {
        ctx.class("writer was interrupted and retried");
    }
    if c.recs.iter().any(|r| r.seq.len() > 8192) {
        ctx.class("sequence longer than 8 KiB");
    }
    let out = sink.data;
    // 1. round trip through the parser
    let mut rdr = fasta::Reader::new(&out[..]);
    let mut parsed: Vec<(Vec<u8>, Vec<u8>, Vec<u8>, Option<Vec<u8>>)> = Vec::new();
    loop {
        match rdr.next() {
            None => break,
            Some(Ok(r)) => parsed.push((r.head().to_vec(), r.full_seq().to_vec(), r.id_bytes().to_vec(), r.desc_bytes().map(|d| d.to_vec()))),
            Some(Err(e)) => fail!("fasta-write/output-does-not-parse", "the written text does not parse: {}\n  output: {:?}", e, B(out.clone())),
        }
    }
    ensure!(
        parsed.len() == c.recs.len(),
        "fasta-write/record-count",
        "{} records written, {} parsed back\n  output: {:?}",
        c.recs.len(),
        parsed.len(),
        B(out.clone())
    );
    for (i, (r, p)) in c.recs.iter().zip(&parsed).enumerate() {
        let name = ENTRY_NAMES[(r.entry % N_ENTRIES) as usize];
        let head = full_head(r);
        ensure!(p.0 == head, format!("fasta-write/{}/header", name), "record {}: wrote header {:?}, parsed {:?}\n  output: {:?}", i, B(head.clone()), B(p.0.clone()), B(out.clone()));
        ensure!(p.1 == r.seq.0, format!("fasta-write/{}/sequence", name), "record {}: wrote sequence {:?}, parsed {:?}\n  output: {:?}", i, r.seq, B(p.1.clone()), B(out.clone()));
        // parts come back (the id contains no space by construction)
        ensure!(
            p.2 == r.id.0 && p.3 == r.desc.as_ref().map(|d| d.0.clone()),
            format!("fasta-write/{}/id-desc-parts", name),
            "record {}: wrote id {:?} desc {:?}, parsed id {:?} desc {:?}",
            i,
            r.id,
            r.desc,
            B(p.2.clone()),
            p.3.clone().map(B)
        );
    }
    // 2. wrapping, on the raw bytes
    for (i, (r, (s, e))) in c.recs.iter().zip(&spans).enumerate() {
        let name = ENTRY_NAMES[(r.entry % N_ENTRIES) as usize];
        let text = &out[*s..*e];
        ensure!(text.last() == Some(&b'\n'), format!("fasta-write/{}/no-final-lf", name), "record {}: output does not end with LF: {:?}", i, B::new(text));
        let mut lines: Vec<&[u8]> = text[..text.len() - 1].split(|&b| b == b'\n').collect();
        let header_line = lines.remove(0);
        ensure!(header_line.first() == Some(&b'>'), format!("fasta-write/{}/no-gt", name), "record {}: header line does not start with '>'", i);
        if is_wrapped(r.entry % N_ENTRIES) {
            for (j, l) in lines.iter().enumerate() {
                ensure!(
                    l.len() <= c.wrap,
                    format!("fasta-write/{}/line-longer-than-wrap", name),
                    "record {}: sequence line {} has {} bytes, wrap width is {}\n  output: {:?}",
                    i,
                    j,
                    l.len(),
                    c.wrap,
                    B::new(text)
                );
                if j + 1 < lines.len() {
                    ensure!(
                        l.len() == c.wrap,
                        format!("fasta-write/{}/short-inner-line", name),
                        "record {}: sequence line {} (not the last) has {} bytes, wrap width is {}\n  output: {:?}",
                        i,
                        j,
                        l.len(),
                        c.wrap,
                        B::new(text)
                    );
                }
            }
            if r.seq.len() > c.wrap {
                ctx.class("sequence longer than the wrap width");
            }
            if !r.seq.is_empty() && r.seq.len() % c.wrap == 0 {
                ctx.class("sequence length is a multiple of the wrap width");
            }
        } else {
            ensure!(lines.len() == 1, format!("fasta-write/{}/not-single-line", name), "record {}: unwrapped output has {} sequence lines", i, lines.len());
        }
    }
    // 3. whole vs chunked
    for (i, r) in c.recs.iter().enumerate() {
        let chunks = chunks_of(&r.seq, &r.cuts);
        let (mut a, mut b) = (Vec::new(), Vec::new());
        fasta::write_seq(&mut a, &r.seq).unwrap();
        fasta::write_seq_iter(&mut b, chunks.iter().cloned()).unwrap();
        ensure!(a == b, "fasta-write/write_seq-vs-iter", "record {}: write_seq -> {:?}, write_seq_iter({:?}) -> {:?}", i, B(a.clone()), chunks.iter().map(|c| B::new(c)).collect::<Vec<_>>(), B(b.clone()));
        if !r.seq.is_empty() {
            let (mut a, mut b) = (Vec::new(), Vec::new());
            fasta::write_wrap_seq(&mut a, &r.seq, c.wrap).unwrap();
            fasta::write_wrap_seq_iter(&mut b, chunks.iter().cloned(), c.wrap).unwrap();
            ensure!(
                a == b,
                "fasta-write/write_wrap_seq-vs-iter",
                "record {}: wrap {}: write_wrap_seq -> {:?}, write_wrap_seq_iter({:?}) -> {:?}",
                i,
                c.wrap,
                B(a.clone()),
                chunks.iter().map(|c| B::new(c)).collect::<Vec<_>>(),
                B(b.clone())
            );
        }
        if chunks.len() >= 2 {
            ctx.class("sequence supplied in >= 2 chunks");
        }
        if chunks.iter().any(|c| c.is_empty()) {
            ctx.class("empty chunk");
        }
        let mut acc = 0;
        for ch in &chunks[..chunks.len() - 1] {
            acc += ch.len();
            if acc > 0 && acc % c.wrap == 0 {
                ctx.class("a chunk ends exactly at a line end");
                break;
            }
        }
        if r.seq.is_empty() {
            ctx.class("empty sequence");
        }
    }
    Ok(())
}

pub struct FastaWrite;

fn head_part(allow_space: bool) -> BoxedStrategy<B> {
    let b = if allow_space {
        prop::sample::select(&b"abcXYZ019_>@; \r\x80\xff"[..]).boxed()
    } else {
        prop::sample::select(&b"abcXYZ019_>@;\r\x80\xff"[..]).boxed()
    };
    vec(b, 0..10).prop_map(B).boxed()
}

pub fn wrec(wrap_hint: usize) -> BoxedStrategy<WRec> {
    let seq_len = prop_oneof![
        1 => Just(0usize),
        4 => 0usize..40,
        3 => (0usize..6, -1i32..=1).prop_map(move |(k, d)| ((k * wrap_hint) as i32 + d).max(0) as usize),
        1 => 40usize..200,
    ];
    let seq_len = prop_oneof![60 => seq_len, 1 => 200usize..3000, 1 => 8000usize..20000];
    let seq = seq_len.prop_flat_map(|n| vec(prop::sample::select(&b"ACGTN acgt*-;@+\x80"[..]), n)).prop_map(B);
    let pre_fail = prop_oneof![6 => Just(None), 1 => (0u16..60).prop_map(Some), 1 => (60u16..9000).prop_map(Some)];
    (head_part(false), prop::option::of(head_part(true)), seq, vec((any::<u16>(), prop::bool::weighted(0.2)), 0..5), 0u8..N_ENTRIES, prop_oneof![2 => 1u8..30, 1 => (-1i32..=1).prop_map(move |d| (wrap_hint as i32 + d).clamp(1, 250) as u8)], pre_fail)
        .prop_map(|(mut id, mut desc, seq, cuts, entry, src_width, pre_fail)| {
            // the header must not end in CR
            match desc.as_mut() {
                Some(d) => {
                    if d.last() == Some(&b'\r') {
                        *d.0.last_mut().unwrap() = b'x';
                    }
                }
                None => {
                    if id.last() == Some(&b'\r') {
                        *id.0.last_mut().unwrap() = b'x';
                    }
                }
            }
            WRec { id, desc, seq, cuts, entry, src_width, pre_fail }
        })
        .boxed()
}

impl Prop for FastaWrite {
    type Case = Case;
    fn strategy(&self, _tier: Tier) -> BoxedStrategy<Case> {
        let sink = prop_oneof![3 => Just((0u8, 0u16)), 2 => (Just(1u8), prop_oneof![1u16..8, 8u16..200]), 1 => (Just(2u8), prop_oneof![1u16..8, 8u16..200, Just(4096u16)]), 1 => (Just(3u8), 0u16..5)];
        boxed(
            (prop_oneof![24 => 1usize..=70, 4 => 70usize..400, 1 => prop::sample::select(&[usize::MAX, usize::MAX - 1, usize::MAX / 2 + 1, 1usize << 40, u32::MAX as usize, u32::MAX as usize + 1, 65536usize][..])])
                .prop_flat_map(|wrap| (vec(wrec(wrap.min(400)), 1..6), Just(wrap)))
                .prop_flat_map(move |(recs, wrap)| (Just(recs), Just(wrap), sink.clone()))
                .prop_map(|(recs, wrap, sink)| Case { recs, wrap, sink }),
        )
    }
    fn check(&self, c: &Case, ctx: &mut Ctx) -> CheckResult {
        if c.recs.iter().any(|r| r.seq.len() > c.wrap || r.cuts.len() >= 1) {
            ctx.nontrivial(c, c);
        }
        check_case(c, ctx)
    }
}

pub const RULE: &str = "cases = 1..5 records (id without space/LF, optional description, header not ending in CR, may contain '>', CR inside, non-UTF-8; sequence without LF/CR/'>' of length 0..200 with lengths k*wrap+{-1,0,1} over-weighted; chunking with cut points and inserted empty chunks; one of 11 writer entry points incl. RefRecord methods on a parsed multi-line LF or CRLF rendering whose line width is often the wrap width - 1, the wrap width or + 1) x wrap 1..=70 (rarely up to 400, or a 'do not wrap' width such as usize::MAX, usize::MAX / 2 + 1, 2^40, 2^32), written back to back into a Vec or into a writer that accepts only part of each buffer (at most n bytes per write(), or never across an n-byte block boundary) or that is interrupted (ErrorKind::Interrupted) every few calls; sequences up to 20 kB with low weight; with probability 1/4 a record's write is preceded by the same call on a writer that fails with an I/O error after k bytes (the result is ignored, as a caller that carries on would). Oracle: parse(output) = the list of (header, sequence) and id/desc parts; on the raw bytes: wrapped lines <= wrap and all but the last == wrap, unwrapped output has one sequence line; write_seq = write_seq_iter(chunks); for non-empty sequences write_wrap_seq = write_wrap_seq_iter(chunks) byte for byte. Exhaustive sub-check: every sequence length 0..=8 x wrap 1..=9 x every set of cut points x {no, leading, trailing} empty chunk. Non-trivial = a sequence longer than wrap or >= 2 chunks. Distinct = hash(case).";

pub fn run(tier: Tier) -> i32 {
    let mut run = Run::new("C10", tier, "exploration");
    let p = FastaWrite;
    run.replays("fasta-write-roundtrip", &p);
    run.generated("fasta-write-roundtrip", &p, tier.pick(300_000, 2_000_000));
    run.exhaustive("wrap-chunking-exhaustive", "sequence length 0..=8 x wrap 1..=9 x all cut sets x empty-chunk placement, entry points write_wrap_seq_iter / write_wrap_seq / write_seq_iter", |ctx| {
        for len in 0..=8usize {
            let seq: Vec<u8> = (0..len).map(|i| b"ACGTNACGT"[i]).collect();
            for wrap in 1..=9usize {
                for cutset in 0u32..(1 << len.saturating_sub(1)) {
                    for empties in 0..3u8 {
                        // build explicit chunks
                        let mut chunks: Vec<&[u8]> = Vec::new();
                        if empties == 1 {
                            chunks.push(&seq[0..0]);
                        }
                        let mut last = 0;
                        for p in 1..len {
                            if cutset >> (p - 1) & 1 == 1 {
                                chunks.push(&seq[last..p]);
                                last = p;
                            }
                        }
                        chunks.push(&seq[last..]);
                        if empties == 2 {
                            chunks.push(&seq[len..len]);
                        }
                        ctx.eval();
                        if len > wrap || chunks.len() >= 2 {
                            ctx.nontrivial(&(len, wrap, cutset, empties), &serde_json::json!({"len": len, "wrap": wrap, "chunks": chunks.iter().map(|c| crate::util::esc(c)).collect::<Vec<_>>()}));
                        }
                        let (mut a, mut b) = (Vec::new(), Vec::new());
                        let written = crate::engine::guarded(|| {
                            fasta::write_wrap_seq(&mut a, &seq, wrap).unwrap();
                            fasta::write_wrap_seq_iter(&mut b, chunks.iter().cloned(), wrap).unwrap();
                            Ok(())
                        });
                        if b.is_empty() {
                            b.push(b'\n');
                        }
                        let mut ok = written.is_ok() && (len == 0 || a == b);
                        // widths on the iterator output
                        let body = &b[..b.len() - 1];
                        let lines: Vec<&[u8]> = body.split(|&x| x == b'\n').collect();
                        for (j, l) in lines.iter().enumerate() {
                            if l.len() > wrap || (j + 1 < lines.len() && l.len() != wrap) {
                                ok = false;
                            }
                        }
                        if lines.concat() != seq {
                            ok = false;
                        }
                        let (mut c1, mut c2) = (Vec::new(), Vec::new());
                        fasta::write_seq(&mut c1, &seq).unwrap();
                        fasta::write_seq_iter(&mut c2, chunks.iter().cloned()).unwrap();
                        if c1 != c2 {
                            ok = false;
                        }
                        if !ok {
                            let case = Case {
                                recs: vec![WRec { id: B::new(b"x"), desc: None, seq: B(seq.clone()), cuts: (1..len).filter(|p| cutset >> (p - 1) & 1 == 1).map(|p| ((((p as u32) << 16) / (len as u32 + 1) + 1) as u16, false)).collect(), entry: 6, src_width: 1, pre_fail: None }],
                                wrap,
                                sink: (0, 0),
                            };
                            return Err((
                                serde_json::to_value(&case).unwrap(),
                                crate::engine::Failure::new(
                                    "fasta-write/exhaustive-wrap-mismatch",
                                    format!("seq {:?} wrap {} chunks {:?}: whole -> {:?}, chunked -> {:?}", B(seq.clone()), wrap, chunks.iter().map(|c| B::new(c)).collect::<Vec<_>>(), B(a), B(b)),
                                ),
                            ));
                        }
                    }
                }
            }
        }
        Ok(())
    });
    run.finish(RULE, &["the parser used for the round trip is the crate's own fasta::Reader (its correctness is C01's subject)"])
}

pub fn replay(run: &mut Run, file: &std::path::Path) -> Option<bool> {
    run.replay_file("fasta-write-roundtrip", &FastaWrite, file, true).or_else(|| run.replay_file("wrap-chunking-exhaustive", &FastaWrite, file, true))
}
