//! C06 — readers are total: no panic, hang or fabricated record for any input or history.
//! Validity predicate over generated histories with refusing policies, chunking, injected source
//! errors and calls after errors / end. (DESIGN.md §4 C06)

use crate::engine::{boxed, CheckResult, Ctx, Prop, Run, Tier};
use crate::gen;
use crate::interp::{check_genuine, livelock_check, run_ops_fmt, Ev, Op, RunSpec};
use crate::light::fmt_name;
use crate::model::{Format, Model, NRec};
use crate::policy::PolKind;
use crate::source::Script;
use crate::util::B;
use proptest::collection::vec;
use proptest::prelude::*;
use serde_derive::{Deserialize, Serialize};

#[derive(Clone, Debug, Serialize, Deserialize, Hash)]
pub struct Case {
    pub format: Format,
    pub input: B,
    pub cap: usize,
    pub policy: PolKind,
    pub script: Script,
    pub ops: Vec<Op>,
}

fn op() -> BoxedStrategy<Op> {
    prop_oneof![
        8 => Just(Op::Next),
        2 => Just(Op::Owned),
        6 => (0u8..3).prop_map(Op::ReadSet),
        6 => (0u8..3, prop_oneof![8 => 1u8..=3, 4 => 4u8..=7, 2 => 8u8..=20, 1 => 250u8..=255]).prop_map(|(s, n)| Op::ReadExact(s, n)),
        4 => any::<u16>().prop_map(Op::Seek),
        1 => any::<u16>().prop_map(Op::SeekSeen),
        2 => gen::policy_any().prop_map(Op::SetPolicy),
        1 => Just(Op::IntoRecords),
        1 => (0u8..3).prop_map(Op::ShrinkSet),
        1 => (0u8..3, 0u8..3).prop_map(|(a, b)| Op::CloneSet(a, b)),
        1 => (0u8..3, 0u8..3).prop_map(|(a, b)| Op::CloneFromSet(a, b)),
    ]
    .boxed()
}

pub struct Total;

impl Prop for Total {
    type Case = Case;
    fn input_bytes<'a>(&self, c: &'a mut Self::Case) -> Option<&'a mut Vec<u8>> {
        Some(&mut c.input.0)
    }
    fn strategy(&self, _tier: Tier) -> BoxedStrategy<Case> {
        let per_format = move |f: Format| {
            let input = prop_oneof![4 => gen::any_input(f, true), 2 => super::c04::history_input(f)];
            (gen::input_and_cap(f, input.boxed()), gen::policy_any(), gen::script_with_fault(60), vec(op(), 0..24))
                .prop_map(move |((input, cap), policy, script, ops)| Case { format: f, input, cap, policy, script, ops })
        };
        boxed(prop_oneof![per_format(Format::Fasta), per_format(Format::Fastq)])
    }

    fn check(&self, c: &Case, ctx: &mut Ctx) -> CheckResult {
        check_case(c, ctx)
    }
}

pub fn check_case(c: &Case, ctx: &mut Ctx) -> CheckResult {
    let f = fmt_name(c.format);
    // seek targets: true record starts of the strict model
    let m = Model::build(c.format, &c.input);
    // "a record of the input": the most permissive list
    let lenient = Model::build_lenient(c.format, &c.input);
    let recs: Vec<NRec> = lenient.recs.iter().map(|r| r.rec.clone()).collect();
    let spec = RunSpec { input: &c.input, cap: c.cap, policy: c.policy, script: &c.script, ops: &c.ops, model: &m };
    let t = run_ops_fmt(c.format, &spec);
    livelock_check(f, &t)?;
    let floor = |byte: u64| lenient.recs.iter().position(|r| r.byte as u64 == byte).or(Some(lenient.recs.len()));
    let st = check_genuine(f, &recs, &floor, &t)?;
    let faults = t.src.borrow().faults_fired;
    let refused = t.pol_logs.iter().any(|l| l.borrow().iter().any(|e| e.answer.is_none()));
    if faults > 0 {
        ctx.class("injected source error fired");
    }
    if refused {
        ctx.class("policy refused growth");
    }
    if st.calls_after_error > 0 {
        ctx.class("calls after an error");
    }
    if st.calls_after_end > 0 {
        ctx.class("calls after end of input");
    }
    if st.slot_iter_after_failed_fill > 0 {
        ctx.class("record set iterated after a failed / empty fill");
    }
    if t.steps.iter().any(|s| matches!(&s.ev, Ev::Seek { res: Err(_), .. })) {
        ctx.class("seek failed (injected)");
    }
    if t.steps.iter().any(|s| matches!(&s.ev, Ev::Seek { res: Ok(_), .. })) && st.errors > 0 {
        ctx.class("history has both an error and a successful seek");
    }
    ctx.class_n("records checked for genuineness", st.records_seen as u64);
    if st.calls_after_error > 0 || st.calls_after_end > 0 || st.slot_iter_after_failed_fill > 0 || faults > 0 {
        ctx.nontrivial(c, c);
    }
    Ok(())
}

/// Post-fault behaviour, systematically: the histories of C14's generator, with a one-shot source error at EVERY
/// source call k of the fault-free run; the whole faulted trace must satisfy the validity predicate.
pub struct EnumeratedFaults;

impl Prop for EnumeratedFaults {
    type Case = super::c14::Case;
    fn input_bytes<'a>(&self, c: &'a mut Self::Case) -> Option<&'a mut Vec<u8>> {
        Some(&mut c.input.0)
    }
    fn strategy(&self, tier: Tier) -> BoxedStrategy<super::c14::Case> {
        use crate::engine::Prop as _;
        // histories that retry: every seek is followed by a second seek to the same record and a read
        super::c14::Faults
            .strategy(tier)
            .prop_map(|mut c| {
                let mut ops = Vec::with_capacity(c.ops.len() * 2);
                for o in c.ops.drain(..) {
                    let again = matches!(o, Op::Seek(_));
                    ops.push(o.clone());
                    if again {
                        ops.push(o);
                        ops.push(Op::Next);
                    }
                }
                c.ops = ops;
                c
            })
            .boxed()
    }
    fn check(&self, c: &super::c14::Case, ctx: &mut Ctx) -> CheckResult {
        let f = fmt_name(c.format);
        let m = Model::build(c.format, &c.input);
        let lenient = Model::build_lenient(c.format, &c.input);
        let recs: Vec<NRec> = lenient.recs.iter().map(|r| r.rec.clone()).collect();
        let floor = |byte: u64| lenient.recs.iter().position(|r| r.byte as u64 == byte).or(Some(lenient.recs.len()));
        let run = |fault: Option<(u32, crate::source::EK)>| {
            let script = Script { chunks: c.chunks.clone(), interrupts: c.interrupts.clone(), fault, sticky: false, payload: c.payload };
            let spec = RunSpec { input: &c.input, cap: c.cap, policy: c.policy, script: &script, ops: &c.ops, model: &m };
            run_ops_fmt(c.format, &spec)
        };
        let t0 = run(None);
        livelock_check(f, &t0)?;
        let kk = t0.src.borrow().calls.len();
        let ks: Vec<usize> = match c.only_k {
            Some(k) => vec![k as usize],
            None => (0..kk).collect(),
        };
        let mut any = false;
        for k in ks {
            let ek = crate::source::ALL_EK[k % crate::source::ALL_EK.len()];
            let t = run(Some((k as u32, ek)));
            if ctx.counting {
                ctx.evaluations += 1;
            }
            livelock_check(f, &t).map_err(|e| crate::engine::Failure::new(e.sig, format!("fault at source call {}: {}", k, e.msg)))?;
            let st = check_genuine(f, &recs, &floor, &t).map_err(|e| crate::engine::Failure::new(e.sig, format!("one-shot {} at source call {}: {}", ek.name(), k, e.msg)))?;
            if st.calls_after_error > 0 {
                any = true;
            }
            if t.steps.iter().any(|s| matches!(&s.ev, Ev::Seek { res: Err(_), .. })) && t.steps.iter().any(|s| matches!(&s.ev, Ev::Seek { res: Ok(_), real: false, .. })) {
                ctx.class("a failed seek and a later seek served from the buffer in one history");
            }
        }
        ctx.class_n("fault points enumerated ((case, k) pairs)", kk as u64);
        if any {
            ctx.nontrivial(c, c);
        }
        Ok(())
    }
}

pub const RULE: &str = "cases = (format, input from {documents, mutated documents, byte soups, out-of-domain FASTQ}, capacity, any policy incl. refusing ones (RefuseAlways, RefuseAbove, DoubleUntilLimited with small limits), chunk/interrupt script with an optional injected source error (one-shot or sticky, any kind) at a generated source call, history of 0..24 operations incl. set_policy, seeks to true record starts, calls after errors and after end). Validity predicate: no panic (catch_unwind, overflow checks on), no livelock (deterministic source-call budget), every record handed out by any call or held by any record set at any time is a record of the input, reader outputs in file order (floor advances, reset by seeks). Sub-check enumerated-faults: histories in which every seek is retried (seek, same seek again, next), with a one-shot source error at EVERY source call k of the fault-free run; every faulted trace must satisfy the same predicate (evaluations counts the (case, k) pairs). Non-trivial = the history has a call after an error or after end, or iterates a set after a failed fill, or an injected fault fired. Distinct = hash(case). Sub-check constructors: any input written to a temporary file and read through Reader::new, from_path and from_path_with_capacity - no panic, outcome as the model's (files of 0, 1, 2 bytes included). Exact-count reads in histories also use the counts a caller passes to say 'everything' (usize::MAX, isize::MAX, 2^40, u32::MAX).";

pub fn run(tier: Tier) -> i32 {
    let mut run = Run::new("C06", tier, "exploration");
    // C06's statement forbids hangs: a case that burns 20 s of thread CPU time is reported as a livelock
    run.hang_is_violation = true;
    let p = Total;
    run.replays("total-genuine", &p);
    run.generated("total-genuine", &p, tier.pick(250_000, 5_000_000));
    let e = EnumeratedFaults;
    run.replays("enumerated-faults", &e);
    run.generated("enumerated-faults", &e, tier.pick(30_000, 600_000));
    // the constructors that open files reach the same readers: no byte string makes them panic either
    for f in [Format::Fasta, Format::Fastq] {
        let k = super::c01::Constructors(f);
        run.replays("constructors", &k);
        run.generated("constructors", &k, tier.pick(10_000, 150_000));
    }
    run.finish(
        RULE,
        &[
            "livelocks: a reader that keeps calling the source is caught by the deterministic step budget; one that spins without touching the source is caught when a single generated case has burnt 20 s of thread CPU time (CPU time from /proc, not wall clock; normal cases need microseconds); in every other check a stuck case is reported as inconclusive (exit 2) after VERIF_CASE_TIMEOUT = 180 s",
            "policies returning a size <= current and seeks to non-record positions are outside the stated domain",
            "FASTQ groups mixing terminators count as records of the input when handed out (most permissive reading)",
        ],
    )
}

pub fn replay(run: &mut Run, file: &std::path::Path) -> Option<bool> {
    run.replay_file("total-genuine", &Total, file, true).or_else(|| run.replay_file("enumerated-faults", &EnumeratedFaults, file, true))
        .or_else(|| run.replay_file("constructors", &super::c01::Constructors(Format::Fasta), file, true))
}
