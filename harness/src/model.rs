//! Reference models M_fa / M_fq (DESIGN.md §3.1). Deliberately naive: split the whole input at LF,
//! no buffers, no state machine, nothing shared with the implementation.

use crate::util::{lossy, trim_cr, B};
use serde_derive::{Deserialize, Serialize};

#[derive(Clone, Copy, Debug, PartialEq, Eq, Hash, Serialize, Deserialize, PartialOrd, Ord)]
pub enum Format {
    Fasta,
    Fastq,
}

/// Normalised record as seen through the public API. FASTQ: `lines` has exactly one element (the
/// sequence) and `qual` is `Some`.
#[derive(Clone, Debug, PartialEq, Eq, Hash, Serialize, Deserialize)]
pub struct NRec {
    pub head: B,
    pub lines: Vec<B>,
    pub qual: Option<B>,
}

#[derive(Clone, Debug, PartialEq, Eq, Hash, Serialize, Deserialize)]
pub enum NErr {
    Io(String),
    BufferLimit,
    InvalidStart { line: u64, found: u8, id: Option<String> },
    InvalidSep { line: u64, found: u8, id: Option<String> },
    UnequalLengths { line: u64, seq: usize, qual: usize, id: Option<String> },
    UnexpectedEnd { line: u64, id: Option<String> },
}

impl NErr {
    pub fn is_format(&self) -> bool {
        !matches!(self, NErr::Io(_) | NErr::BufferLimit)
    }
    pub fn kind(&self) -> &'static str {
        match self {
            NErr::Io(_) => "io",
            NErr::BufferLimit => "buffer-limit",
            NErr::InvalidStart { .. } => "invalid-start",
            NErr::InvalidSep { .. } => "invalid-sep",
            NErr::UnequalLengths { .. } => "unequal-lengths",
            NErr::UnexpectedEnd { .. } => "unexpected-end",
        }
    }
}

/// A record of the reference model with its file coordinates.
#[derive(Clone, Debug, PartialEq, Eq)]
pub struct MRec {
    pub rec: NRec,
    /// offset of the first byte ('>' / '@')
    pub byte: usize,
    /// 1-based line of the header
    pub line: usize,
    /// distance to the next record start, or to EOF for the last one
    pub extent: usize,
    /// FASTQ: all four lines are LF-terminated
    pub terminated: bool,
}

#[derive(Clone, Debug, PartialEq, Eq)]
pub enum Terminal {
    End,
    Err(NErr),
    /// FASTQ only: the next group mixes LF and CRLF between sequence and quality line, so the length
    /// verdict is outside the claimed domain (C02 quantifier). Comparison stops here.
    Unspecified,
}

#[derive(Clone, Debug)]
pub struct Model {
    pub format: Format,
    pub recs: Vec<MRec>,
    pub term: Terminal,
    /// coordinates (byte, line) of the group the terminal refers to (FASTQ error / unspecified group;
    /// for FASTA InvalidStart: of the offending line), or of EOF for `End`.
    pub term_byte: usize,
    pub term_line: usize,
}

impl Model {
    pub fn build(format: Format, input: &[u8]) -> Model {
        match format {
            Format::Fasta => m_fa(input),
            Format::Fastq => m_fq(input),
        }
    }
    pub fn build_lenient(format: Format, input: &[u8]) -> Model {
        match format {
            Format::Fasta => m_fa(input),
            Format::Fastq => m_fq_opt(input, true),
        }
    }
}

fn pieces(input: &[u8]) -> Vec<(usize, &[u8])> {
    let mut v = Vec::new();
    let mut off = 0;
    for p in input.split(|&b| b == b'\n') {
        v.push((off, p));
        off += p.len() + 1;
    }
    v
}

pub fn m_fa(input: &[u8]) -> Model {
    let ps = pieces(input);
    let n = ps.len();
    let mut recs = Vec::new();
    // 1. skip blank pieces
    let mut i = 0;
    while i < n && trim_cr(ps[i].1).is_empty() {
        i += 1;
    }
    if i == n {
        return Model { format: Format::Fasta, recs, term: Terminal::End, term_byte: input.len(), term_line: n };
    }
    if ps[i].1[0] != b'>' {
        return Model {
            format: Format::Fasta,
            recs,
            term: Terminal::Err(NErr::InvalidStart { line: (i + 1) as u64, found: ps[i].1[0], id: None }),
            term_byte: ps[i].0,
            term_line: i + 1,
        };
    }
    // 3. records
    let mut starts = Vec::new();
    for (j, p) in ps.iter().enumerate().skip(i) {
        if p.1.first() == Some(&b'>') {
            starts.push(j);
        }
    }
    for (k, &s) in starts.iter().enumerate() {
        let e = if k + 1 < starts.len() { starts[k + 1] } else { n };
        let head = trim_cr(&ps[s].1[1..]);
        let mut lines = Vec::new();
        for j in s + 1..e {
            let is_final = j == n - 1;
            if is_final && ps[j].1.is_empty() {
                continue; // input ended with LF: the empty remainder is not a line
            }
            lines.push(B::new(trim_cr(ps[j].1)));
        }
        let byte = ps[s].0;
        let extent = if k + 1 < starts.len() { ps[starts[k + 1]].0 - byte } else { input.len() - byte };
        recs.push(MRec {
            rec: NRec { head: B::new(head), lines, qual: None },
            byte,
            line: s + 1,
            extent,
            terminated: true,
        });
    }
    Model { format: Format::Fasta, recs, term: Terminal::End, term_byte: input.len(), term_line: n }
}

fn err_id(header_piece: &[u8]) -> Option<String> {
    // id given only if the header line is non-empty (raw); it is the header without its first byte,
    // CR-trimmed, up to the first space, lossily decoded.
    if header_piece.is_empty() {
        return None;
    }
    let h = trim_cr(&header_piece[1..]);
    let id = h.split(|&b| b == b' ').next().unwrap();
    Some(lossy(id))
}

pub fn m_fq(input: &[u8]) -> Model {
    m_fq_opt(input, false)
}

/// `lenient`: groups outside the claimed domain (sequence and quality line with different
/// terminators) are accepted as records whatever their lengths, so the record list is the most
/// permissive notion of "a record of the input" (used by C06 only).
pub fn m_fq_opt(input: &[u8], lenient: bool) -> Model {
    let ps = pieces(input);
    let n = ps.len();
    let mut recs = Vec::new();
    let mut g = 0usize;
    loop {
        let s = 4 * g;
        let gbyte = if s < n { ps[s].0 } else { input.len() };
        let gline = s + 1;
        let p = n.saturating_sub(s);
        let done = |recs: Vec<MRec>, term: Terminal| Model {
            format: Format::Fastq,
            recs,
            term,
            term_byte: gbyte,
            term_line: gline,
        };
        if p == 0 {
            // can only happen if n is a multiple of 4 and the previous group had P = 4 -> handled below
            return done(recs, Terminal::End);
        }
        if p <= 3 {
            if ps[s..].iter().all(|x| trim_cr(x.1).is_empty()) {
                return done(recs, Terminal::End);
            }
            // header "complete" = terminated by LF = not the final piece
            let id = if p >= 2 { err_id(ps[s].1) } else { None };
            return done(recs, Terminal::Err(NErr::UnexpectedEnd { line: (s + p) as u64, id }));
        }
        // p >= 4
        let (h, sq, sep, q) = (ps[s].1, ps[s + 1].1, ps[s + 2].1, ps[s + 3].1);
        let q_terminated = p >= 5;
        // first raw byte of a line; for an empty line its LF (every line but an unterminated 4th has one)
        let first = |l: &[u8], terminated: bool| -> Option<u8> {
            l.first().copied().or(if terminated { Some(b'\n') } else { None })
        };
        let start_byte = first(h, true).unwrap();
        if start_byte != b'@' {
            return done(recs, Terminal::Err(NErr::InvalidStart { line: gline as u64, found: start_byte, id: None }));
        }
        let sep_byte = first(sep, true).unwrap();
        if sep_byte != b'+' {
            return done(
                recs,
                Terminal::Err(NErr::InvalidSep { line: (s + 3) as u64, found: sep_byte, id: err_id(h) }),
            );
        }
        // claimed domain of the length verdict
        let seq_crlf = sq.last() == Some(&b'\r');
        let qual_crlf = q.last() == Some(&b'\r');
        // (unterminated quality line without CR counts as either; with CR it counts as CRLF)
        let in_domain = if q_terminated { seq_crlf == qual_crlf } else { !qual_crlf || seq_crlf };
        if !in_domain && !lenient {
            return done(recs, Terminal::Unspecified);
        }
        let (tseq, tqual) = (trim_cr(sq), trim_cr(q));
        if in_domain && tseq.len() != tqual.len() {
            return done(
                recs,
                Terminal::Err(NErr::UnequalLengths {
                    line: gline as u64,
                    seq: tseq.len(),
                    qual: tqual.len(),
                    id: err_id(h),
                }),
            );
        }
        let extent = if q_terminated { ps[s + 4].0 - gbyte } else { input.len() - gbyte };
        recs.push(MRec {
            rec: NRec { head: B::new(trim_cr(&h[1..])), lines: vec![B::new(tseq)], qual: Some(B::new(tqual)) },
            byte: gbyte,
            line: gline,
            extent,
            terminated: q_terminated,
        });
        if !q_terminated {
            let mut m = done(recs, Terminal::End);
            m.term_byte = input.len();
            m.term_line = n;
            return m;
        }
        g += 1;
    }
}

#[cfg(test)]
mod tests {
    use super::*;
    #[test]
    fn fa_basic() {
        let m = m_fa(b"\n\r\n>a b\nAC\r\n\nGT\n>c\n");
        assert_eq!(m.recs.len(), 2);
        assert_eq!(m.recs[0].rec.head, B::new(b"a b"));
        assert_eq!(m.recs[0].rec.lines, vec![B::new(b"AC"), B::new(b""), B::new(b"GT")]);
        assert_eq!((m.recs[0].byte, m.recs[0].line), (3, 3));
        assert_eq!(m.recs[1].rec.lines.len(), 0);
        assert_eq!(m.term, Terminal::End);
        let m = m_fa(b"\n\nx");
        assert_eq!(m.term, Terminal::Err(NErr::InvalidStart { line: 3, found: b'x', id: None }));
    }
    #[test]
    fn fq_basic() {
        let m = m_fq(b"@a\nAC\n+\nII\n\n\n");
        assert_eq!(m.recs.len(), 1);
        assert_eq!(m.term, Terminal::End);
        let m = m_fq(b"@a\nAC\n+\nII\n\n\n\n");
        assert_eq!(m.term, Terminal::Err(NErr::InvalidStart { line: 5, found: b'\n', id: None }));
        let m = m_fq(b"@a\nAC\n+\nII\n@b\nA");
        assert_eq!(m.term, Terminal::Err(NErr::UnexpectedEnd { line: 6, id: Some("b".into()) }));
        let m = m_fq(b"@h\n\n+\n");
        assert_eq!(m.recs.len(), 1);
        let m = m_fq(b"@a\r\nAC\r\n+\r\nII");
        assert_eq!(m.recs.len(), 1);
    }
}
