//! Library part of the verification harness (shared with the fuzz targets).

pub mod alloc;
pub mod driver;
pub mod engine;
pub mod fuzzdec;
pub mod gen;
pub mod interp;
pub mod light;
pub mod minibin;
pub mod model;
pub mod policy;
pub mod props;
pub mod source;
pub mod util;

pub fn interp_livelock(src: &source::SharedLog, f: model::Format) -> engine::CheckResult {
    if let Some((cur, ans)) = src.borrow().bad_policy {
        return Err(engine::Failure::new(
            format!("{}/policy-answer-{}", light::fmt_name(f), if ans <= cur { "does-not-grow" } else { "absurdly-large" }),
            format!("the growth policy answered grow_to({}) = {}: the harness refused instead of passing it on", cur, ans),
        ));
    }
    if let Some(cur) = src.borrow().stalled {
        return Err(engine::Failure::new(
            format!("{}/policy-asked-again-without-adopting-the-answer", light::fmt_name(f)),
            format!("grow_to({}) was called 10 000 times in a row although every answer was a larger size: the reader does not adopt the size it is given (the harness refused in the end)", cur),
        ));
    }
    if let Some(cur) = src.borrow().runaway {
        return Err(engine::Failure::new(
            format!("{}/growth-request-although-buffer-exceeds-input", light::fmt_name(f)),
            format!("the policy was asked grow_to({}) although the buffer is already larger than the whole input: no record can need that (the harness refused)", cur),
        ));
    }
    if src.borrow().budget_exceeded {
        return Err(engine::Failure::new(
            format!("{}/livelock-step-budget", light::fmt_name(f)),
            format!("the reader made more than the budgeted number of source calls ({}): livelock", src.borrow().calls.len()),
        ));
    }
    Ok(())
}
