//! Compact, positional (NOT self-describing) serde format in the style of bincode: fixed-width little-endian
//! integers, length-prefixed sequences, structs and tuples as the plain sequence of their fields. Used by C19 next to
//! serde_json, because field-skipping attributes only break formats of this kind. (Adapted from the demonstration
//! code of seeded change C19-d.)

use serde::de::{self, DeserializeSeed, SeqAccess, Visitor};
use serde::ser;
use serde::{Deserialize, Serialize};
use std::fmt;

#[derive(Debug)]
pub struct Error(pub String);

impl fmt::Display for Error {
    fn fmt(&self, f: &mut fmt::Formatter) -> fmt::Result {
        f.write_str(&self.0)
    }
}
impl std::error::Error for Error {}
impl ser::Error for Error {
    fn custom<T: fmt::Display>(msg: T) -> Self {
        Error(msg.to_string())
    }
}
impl de::Error for Error {
    fn custom<T: fmt::Display>(msg: T) -> Self {
        Error(msg.to_string())
    }
}

pub fn to_vec<T: Serialize + ?Sized>(value: &T) -> Result<Vec<u8>, Error> {
    let mut out = vec![];
    value.serialize(&mut Ser { out: &mut out })?;
    Ok(out)
}

pub fn from_slice<'de, T: Deserialize<'de>>(data: &'de [u8]) -> Result<T, Error> {
    let mut de = De { data };
    let v = T::deserialize(&mut de)?;
    if !de.data.is_empty() {
        return Err(Error(format!("{} trailing bytes", de.data.len())));
    }
    Ok(v)
}

pub struct Ser<'a> {
    out: &'a mut Vec<u8>,
}

fn unsupported<T>(what: &str) -> Result<T, Error> {
    Err(Error(format!("minibin: {} not supported", what)))
}

impl<'a, 'b> ser::Serializer for &'b mut Ser<'a> {
    type Ok = ();
    type Error = Error;
    type SerializeSeq = Self;
    type SerializeTuple = Self;
    type SerializeTupleStruct = Self;
    type SerializeTupleVariant = Self;
    type SerializeMap = Self;
    type SerializeStruct = Self;
    type SerializeStructVariant = Self;

    fn serialize_bool(self, v: bool) -> Result<(), Error> {
        self.out.push(v as u8);
        Ok(())
    }
    fn serialize_i8(self, v: i8) -> Result<(), Error> {
        self.out.extend_from_slice(&v.to_le_bytes());
        Ok(())
    }
    fn serialize_i16(self, v: i16) -> Result<(), Error> {
        self.out.extend_from_slice(&v.to_le_bytes());
        Ok(())
    }
    fn serialize_i32(self, v: i32) -> Result<(), Error> {
        self.out.extend_from_slice(&v.to_le_bytes());
        Ok(())
    }
    fn serialize_i64(self, v: i64) -> Result<(), Error> {
        self.out.extend_from_slice(&v.to_le_bytes());
        Ok(())
    }
    fn serialize_u8(self, v: u8) -> Result<(), Error> {
        self.out.push(v);
        Ok(())
    }
    fn serialize_u16(self, v: u16) -> Result<(), Error> {
        self.out.extend_from_slice(&v.to_le_bytes());
        Ok(())
    }
    fn serialize_u32(self, v: u32) -> Result<(), Error> {
        self.out.extend_from_slice(&v.to_le_bytes());
        Ok(())
    }
    fn serialize_u64(self, v: u64) -> Result<(), Error> {
        self.out.extend_from_slice(&v.to_le_bytes());
        Ok(())
    }
    fn serialize_f32(self, v: f32) -> Result<(), Error> {
        self.out.extend_from_slice(&v.to_le_bytes());
        Ok(())
    }
    fn serialize_f64(self, v: f64) -> Result<(), Error> {
        self.out.extend_from_slice(&v.to_le_bytes());
        Ok(())
    }
    fn serialize_char(self, v: char) -> Result<(), Error> {
        self.serialize_u32(v as u32)
    }
    fn serialize_str(self, v: &str) -> Result<(), Error> {
        self.serialize_bytes(v.as_bytes())
    }
    fn serialize_bytes(self, v: &[u8]) -> Result<(), Error> {
        self.out.extend_from_slice(&(v.len() as u64).to_le_bytes());
        self.out.extend_from_slice(v);
        Ok(())
    }
    fn serialize_none(self) -> Result<(), Error> {
        self.out.push(0);
        Ok(())
    }
    fn serialize_some<T: Serialize + ?Sized>(self, value: &T) -> Result<(), Error> {
        self.out.push(1);
        value.serialize(self)
    }
    fn serialize_unit(self) -> Result<(), Error> {
        Ok(())
    }
    fn serialize_unit_struct(self, _: &'static str) -> Result<(), Error> {
        Ok(())
    }
    fn serialize_unit_variant(
        self,
        _: &'static str,
        idx: u32,
        _: &'static str,
    ) -> Result<(), Error> {
        self.serialize_u32(idx)
    }
    fn serialize_newtype_struct<T: Serialize + ?Sized>(
        self,
        _: &'static str,
        value: &T,
    ) -> Result<(), Error> {
        value.serialize(self)
    }
    fn serialize_newtype_variant<T: Serialize + ?Sized>(
        self,
        _: &'static str,
        idx: u32,
        _: &'static str,
        value: &T,
    ) -> Result<(), Error> {
        // as bincode does: the variant index, then the content
        self.out.extend_from_slice(&idx.to_le_bytes());
        value.serialize(self)
    }
    fn serialize_seq(self, len: Option<usize>) -> Result<Self, Error> {
        match len {
            Some(n) => {
                self.out.extend_from_slice(&(n as u64).to_le_bytes());
                Ok(self)
            }
            None => unsupported("sequences of unknown length"),
        }
    }
    fn serialize_tuple(self, _: usize) -> Result<Self, Error> {
        Ok(self)
    }
    fn serialize_tuple_struct(self, _: &'static str, _: usize) -> Result<Self, Error> {
        Ok(self)
    }
    fn serialize_tuple_variant(
        self,
        _: &'static str,
        idx: u32,
        _: &'static str,
        _: usize,
    ) -> Result<Self::SerializeTupleVariant, Error> {
        self.out.extend_from_slice(&idx.to_le_bytes());
        Ok(self)
    }
    fn serialize_map(self, len: Option<usize>) -> Result<Self::SerializeMap, Error> {
        match len {
            Some(n) => {
                self.out.extend_from_slice(&(n as u64).to_le_bytes());
                Ok(self)
            }
            None => unsupported("maps of unknown length"),
        }
    }
    fn serialize_struct(self, _: &'static str, _: usize) -> Result<Self, Error> {
        Ok(self)
    }
    fn serialize_struct_variant(
        self,
        _: &'static str,
        idx: u32,
        _: &'static str,
        _: usize,
    ) -> Result<Self::SerializeStructVariant, Error> {
        self.out.extend_from_slice(&idx.to_le_bytes());
        Ok(self)
    }
    fn is_human_readable(&self) -> bool {
        false
    }
}

impl<'a, 'b> ser::SerializeSeq for &'b mut Ser<'a> {
    type Ok = ();
    type Error = Error;
    fn serialize_element<T: Serialize + ?Sized>(&mut self, value: &T) -> Result<(), Error> {
        value.serialize(&mut **self)
    }
    fn end(self) -> Result<(), Error> {
        Ok(())
    }
}
impl<'a, 'b> ser::SerializeTuple for &'b mut Ser<'a> {
    type Ok = ();
    type Error = Error;
    fn serialize_element<T: Serialize + ?Sized>(&mut self, value: &T) -> Result<(), Error> {
        value.serialize(&mut **self)
    }
    fn end(self) -> Result<(), Error> {
        Ok(())
    }
}
impl<'a, 'b> ser::SerializeTupleStruct for &'b mut Ser<'a> {
    type Ok = ();
    type Error = Error;
    fn serialize_field<T: Serialize + ?Sized>(&mut self, value: &T) -> Result<(), Error> {
        value.serialize(&mut **self)
    }
    fn end(self) -> Result<(), Error> {
        Ok(())
    }
}
impl<'a, 'b> ser::SerializeStruct for &'b mut Ser<'a> {
    type Ok = ();
    type Error = Error;
    fn serialize_field<T: Serialize + ?Sized>(
        &mut self,
        _key: &'static str,
        value: &T,
    ) -> Result<(), Error> {
        value.serialize(&mut **self)
    }
    fn end(self) -> Result<(), Error> {
        Ok(())
    }
}

impl<'a, 'b> ser::SerializeTupleVariant for &'b mut Ser<'a> {
    type Ok = ();
    type Error = Error;
    fn serialize_field<T: Serialize + ?Sized>(&mut self, value: &T) -> Result<(), Error> {
        value.serialize(&mut **self)
    }
    fn end(self) -> Result<(), Error> {
        Ok(())
    }
}
impl<'a, 'b> ser::SerializeStructVariant for &'b mut Ser<'a> {
    type Ok = ();
    type Error = Error;
    fn serialize_field<T: Serialize + ?Sized>(&mut self, _key: &'static str, value: &T) -> Result<(), Error> {
        value.serialize(&mut **self)
    }
    fn end(self) -> Result<(), Error> {
        Ok(())
    }
}
impl<'a, 'b> ser::SerializeMap for &'b mut Ser<'a> {
    type Ok = ();
    type Error = Error;
    fn serialize_key<T: Serialize + ?Sized>(&mut self, key: &T) -> Result<(), Error> {
        key.serialize(&mut **self)
    }
    fn serialize_value<T: Serialize + ?Sized>(&mut self, value: &T) -> Result<(), Error> {
        value.serialize(&mut **self)
    }
    fn end(self) -> Result<(), Error> {
        Ok(())
    }
}

pub struct De<'de> {
    data: &'de [u8],
}

struct Entries<'a, 'de> {
    de: &'a mut De<'de>,
    remaining: usize,
}

impl<'a, 'de> de::MapAccess<'de> for Entries<'a, 'de> {
    type Error = Error;
    fn next_key_seed<K: DeserializeSeed<'de>>(&mut self, seed: K) -> Result<Option<K::Value>, Error> {
        if self.remaining == 0 {
            return Ok(None);
        }
        self.remaining -= 1;
        seed.deserialize(&mut *self.de).map(Some)
    }
    fn next_value_seed<V: DeserializeSeed<'de>>(&mut self, seed: V) -> Result<V::Value, Error> {
        seed.deserialize(&mut *self.de)
    }
    fn size_hint(&self) -> Option<usize> {
        Some(self.remaining)
    }
}

struct Variant<'a, 'de> {
    de: &'a mut De<'de>,
}

impl<'a, 'de> de::EnumAccess<'de> for Variant<'a, 'de> {
    type Error = Error;
    type Variant = Self;
    fn variant_seed<V: DeserializeSeed<'de>>(self, seed: V) -> Result<(V::Value, Self), Error> {
        let mut b = [0u8; 4];
        b.copy_from_slice(self.de.take(4)?);
        let idx = u32::from_le_bytes(b);
        let v = seed.deserialize(de::value::U32Deserializer::<Error>::new(idx))?;
        Ok((v, self))
    }
}

impl<'a, 'de> de::VariantAccess<'de> for Variant<'a, 'de> {
    type Error = Error;
    fn unit_variant(self) -> Result<(), Error> {
        Ok(())
    }
    fn newtype_variant_seed<T: DeserializeSeed<'de>>(self, seed: T) -> Result<T::Value, Error> {
        seed.deserialize(self.de)
    }
    fn tuple_variant<V: Visitor<'de>>(self, len: usize, visitor: V) -> Result<V::Value, Error> {
        de::Deserializer::deserialize_tuple(self.de, len, visitor)
    }
    fn struct_variant<V: Visitor<'de>>(self, fields: &'static [&'static str], visitor: V) -> Result<V::Value, Error> {
        de::Deserializer::deserialize_tuple(self.de, fields.len(), visitor)
    }
}

impl<'de> De<'de> {
    fn take(&mut self, n: usize) -> Result<&'de [u8], Error> {
        if self.data.len() < n {
            return Err(Error("unexpected end of data".to_string()));
        }
        let (a, b) = self.data.split_at(n);
        self.data = b;
        Ok(a)
    }
    fn u64(&mut self) -> Result<u64, Error> {
        let mut b = [0u8; 8];
        b.copy_from_slice(self.take(8)?);
        Ok(u64::from_le_bytes(b))
    }
    fn len(&mut self) -> Result<usize, Error> {
        let n = self.u64()?;
        if n > self.data.len() as u64 {
            // every element occupies at least one byte
            return Err(Error(format!("implausible length {}", n)));
        }
        Ok(n as usize)
    }
}

struct Elements<'a, 'de> {
    de: &'a mut De<'de>,
    remaining: usize,
}

impl<'a, 'de> SeqAccess<'de> for Elements<'a, 'de> {
    type Error = Error;
    fn next_element_seed<T: DeserializeSeed<'de>>(
        &mut self,
        seed: T,
    ) -> Result<Option<T::Value>, Error> {
        if self.remaining == 0 {
            return Ok(None);
        }
        self.remaining -= 1;
        seed.deserialize(&mut *self.de).map(Some)
    }
    fn size_hint(&self) -> Option<usize> {
        Some(self.remaining)
    }
}

macro_rules! de_num {
    ($name:ident, $visit:ident, $ty:ty, $n:expr) => {
        fn $name<V: Visitor<'de>>(self, visitor: V) -> Result<V::Value, Error> {
            let mut b = [0u8; $n];
            b.copy_from_slice(self.take($n)?);
            visitor.$visit(<$ty>::from_le_bytes(b))
        }
    };
}

impl<'a, 'de> de::Deserializer<'de> for &'a mut De<'de> {
    type Error = Error;

    fn deserialize_any<V: Visitor<'de>>(self, _: V) -> Result<V::Value, Error> {
        unsupported("deserialize_any (format is not self-describing)")
    }
    fn deserialize_bool<V: Visitor<'de>>(self, visitor: V) -> Result<V::Value, Error> {
        visitor.visit_bool(self.take(1)?[0] != 0)
    }
    de_num!(deserialize_i8, visit_i8, i8, 1);
    de_num!(deserialize_i16, visit_i16, i16, 2);
    de_num!(deserialize_i32, visit_i32, i32, 4);
    de_num!(deserialize_i64, visit_i64, i64, 8);
    de_num!(deserialize_u8, visit_u8, u8, 1);
    de_num!(deserialize_u16, visit_u16, u16, 2);
    de_num!(deserialize_u32, visit_u32, u32, 4);
    de_num!(deserialize_u64, visit_u64, u64, 8);
    de_num!(deserialize_f32, visit_f32, f32, 4);
    de_num!(deserialize_f64, visit_f64, f64, 8);
    fn deserialize_char<V: Visitor<'de>>(self, _: V) -> Result<V::Value, Error> {
        unsupported("char")
    }
    fn deserialize_str<V: Visitor<'de>>(self, visitor: V) -> Result<V::Value, Error> {
        let n = self.len()?;
        let s = std::str::from_utf8(self.take(n)?).map_err(|e| Error(e.to_string()))?;
        visitor.visit_borrowed_str(s)
    }
    fn deserialize_string<V: Visitor<'de>>(self, visitor: V) -> Result<V::Value, Error> {
        self.deserialize_str(visitor)
    }
    fn deserialize_bytes<V: Visitor<'de>>(self, visitor: V) -> Result<V::Value, Error> {
        let n = self.len()?;
        visitor.visit_borrowed_bytes(self.take(n)?)
    }
    fn deserialize_byte_buf<V: Visitor<'de>>(self, visitor: V) -> Result<V::Value, Error> {
        self.deserialize_bytes(visitor)
    }
    fn deserialize_option<V: Visitor<'de>>(self, visitor: V) -> Result<V::Value, Error> {
        match self.take(1)?[0] {
            0 => visitor.visit_none(),
            _ => visitor.visit_some(self),
        }
    }
    fn deserialize_unit<V: Visitor<'de>>(self, visitor: V) -> Result<V::Value, Error> {
        visitor.visit_unit()
    }
    fn deserialize_unit_struct<V: Visitor<'de>>(
        self,
        _: &'static str,
        visitor: V,
    ) -> Result<V::Value, Error> {
        visitor.visit_unit()
    }
    fn deserialize_newtype_struct<V: Visitor<'de>>(
        self,
        _: &'static str,
        visitor: V,
    ) -> Result<V::Value, Error> {
        visitor.visit_newtype_struct(self)
    }
    fn deserialize_seq<V: Visitor<'de>>(self, visitor: V) -> Result<V::Value, Error> {
        let remaining = self.len()?;
        visitor.visit_seq(Elements {
            de: self,
            remaining,
        })
    }
    fn deserialize_tuple<V: Visitor<'de>>(
        self,
        len: usize,
        visitor: V,
    ) -> Result<V::Value, Error> {
        visitor.visit_seq(Elements {
            de: self,
            remaining: len,
        })
    }
    fn deserialize_tuple_struct<V: Visitor<'de>>(
        self,
        _: &'static str,
        len: usize,
        visitor: V,
    ) -> Result<V::Value, Error> {
        self.deserialize_tuple(len, visitor)
    }
    fn deserialize_map<V: Visitor<'de>>(self, visitor: V) -> Result<V::Value, Error> {
        let remaining = self.len()?;
        visitor.visit_map(Entries { de: self, remaining })
    }
    fn deserialize_struct<V: Visitor<'de>>(
        self,
        _: &'static str,
        fields: &'static [&'static str],
        visitor: V,
    ) -> Result<V::Value, Error> {
        self.deserialize_tuple(fields.len(), visitor)
    }
    fn deserialize_enum<V: Visitor<'de>>(
        self,
        _: &'static str,
        _: &'static [&'static str],
        visitor: V,
    ) -> Result<V::Value, Error> {
        visitor.visit_enum(Variant { de: self })
    }
    fn deserialize_identifier<V: Visitor<'de>>(self, _: V) -> Result<V::Value, Error> {
        unsupported("identifiers")
    }
    fn deserialize_ignored_any<V: Visitor<'de>>(self, _: V) -> Result<V::Value, Error> {
        unsupported("ignored_any")
    }
    fn is_human_readable(&self) -> bool {
        false
    }
}
