//! Light-weight whole-input reading (no slots, no snapshots) used by the input-quantified checks and
//! the exhaustive small-scope enumerations.

use crate::driver::{flat, FaRdr, FqRdr, Out, Rdr, SetOut};
use crate::engine::{CheckResult, Failure};
use crate::model::{Format, Model, Terminal};
use crate::policy::{PolKind, PolLog, RecPolicy, Shared};
use crate::source::{Script, SharedLog, Source};
use std::rc::Rc;

#[derive(Clone, Copy, Debug, PartialEq, Eq, Hash, serde_derive::Serialize, serde_derive::Deserialize)]
pub enum Mode {
    Next,
    Records,
    IntoRecords,
    Sets,
    /// like Sets, but every batch is requested with read_record_set_exact(n)
    Exact(u8),
}

pub struct Reading {
    /// outputs up to and including two extra items after the first End (or until `max` items)
    pub outs: Vec<Out>,
    /// position reported after each output (None where not reported / reader consumed)
    pub pos: Vec<Option<(u64, u64)>>,
    pub src: SharedLog,
    pub pol: PolLog,
    /// Sets mode: sizes of the batches
    pub batches: Vec<usize>,
}

fn read_generic<R: Rdr<Src = Source>>(input: &[u8], cap: usize, pol: PolKind, script: &Script, mode: Mode, max: usize) -> Reading {
    let shared = Rc::new(Shared::default());
    shared.input_len.set(input.len().max(1));
    let budget = crate::interp::budget(input.len(), cap, max + 4);
    let (src, src_log) = Source::new(Rc::new(input.to_vec()), script.clone(), budget);
    let (pol, pol_log) = RecPolicy::new(pol, shared.clone());
    let mut r = R::open(src, cap, pol);
    let mut outs = Vec::new();
    let mut pos = Vec::new();
    let mut batches = Vec::new();
    let extra = 2;
    match mode {
        Mode::Next | Mode::Records => {
            let mut after_end = 0;
            while outs.len() < max {
                let o = if mode == Mode::Next { r.next_rec() } else { r.next_owned() };
                if let Out::Rec(_) = o {
                    shared.delivered.set(shared.delivered.get() + 1);
                }
                let is_end = o == Out::End;
                outs.push(o);
                pos.push(r.pos());
                if is_end || after_end > 0 {
                    after_end += 1;
                    if after_end > extra {
                        break;
                    }
                }
            }
        }
        Mode::IntoRecords => {
            outs = r.drain_into_records(max, extra);
            pos = vec![None; outs.len()];
        }
        Mode::Sets | Mode::Exact(_) => {
            let exact = match mode {
                Mode::Exact(n) => Some(crate::interp::exact_count(n)),
                _ => None,
            };
            let mut set = R::Set::default();
            let mut after_end = 0;
            while outs.len() < max {
                match r.read_set(&mut set, exact) {
                    SetOut::Ok => {
                        let recs = R::set_recs(&set);
                        batches.push(recs.len());
                        shared.delivered.set(shared.delivered.get() + recs.len());
                        let k = recs.len();
                        for (i, rec) in recs.into_iter().enumerate() {
                            outs.push(Out::Rec(rec));
                            // a position is known only after the whole batch
                            pos.push(if i + 1 == k { r.pos() } else { None });
                        }
                        if k == 0 {
                            // would loop forever on a reader that keeps returning empty batches
                            outs.push(Out::Err(crate::model::NErr::Io("verif: empty successful batch".into())));
                            pos.push(None);
                            break;
                        }
                        if after_end > 0 {
                            after_end += 1;
                        }
                    }
                    SetOut::Err(e) => {
                        outs.push(Out::Err(e));
                        pos.push(r.pos());
                        if after_end > 0 {
                            after_end += 1;
                        }
                    }
                    SetOut::End => {
                        outs.push(Out::End);
                        pos.push(r.pos());
                        after_end += 1;
                    }
                }
                if after_end > extra {
                    break;
                }
            }
        }
    }
    src_log.borrow_mut().bad_policy = shared.bad_answer.get();
    src_log.borrow_mut().runaway = shared.runaway.get();
    src_log.borrow_mut().stalled = shared.stalled.get();
    Reading { outs, pos, src: src_log, pol: pol_log, batches }
}

pub fn read_all(format: Format, input: &[u8], cap: usize, pol: PolKind, script: &Script, mode: Mode, max: usize) -> Reading {
    match format {
        Format::Fasta => read_generic::<FaRdr<Source>>(input, cap, pol, script, mode, max),
        Format::Fastq => read_generic::<FqRdr<Source>>(input, cap, pol, script, mode, max),
    }
}

/// The complete expected outcome of sequential reading: records, terminal, then End forever.
/// Returns (expected items, complete): `complete` is false when the model stops at an out-of-domain
/// FASTQ group, in which case only the record prefix is claimed.
pub fn expected(m: &Model, flatten: bool) -> (Vec<Out>, bool) {
    let mut v: Vec<Out> = m.recs.iter().map(|r| Out::Rec(if flatten { flat(&r.rec) } else { r.rec.clone() })).collect();
    match &m.term {
        Terminal::Unspecified => return (v, false),
        Terminal::Err(e) => v.push(Out::Err(e.clone())),
        Terminal::End => {}
    }
    v.push(Out::End);
    v.push(Out::End);
    v.push(Out::End);
    (v, true)
}

pub fn fmt_name(f: Format) -> &'static str {
    match f {
        Format::Fasta => "fasta",
        Format::Fastq => "fastq",
    }
}

/// Compares a complete reading with the model: both directions, order preserved.
pub fn compare(m: &Model, got: &[Out], flatten: bool) -> CheckResult {
    let (exp, complete) = expected(m, flatten);
    let got: Vec<Out> = if flatten {
        got.iter()
            .map(|o| match o {
                Out::Rec(r) => Out::Rec(flat(r)),
                x => x.clone(),
            })
            .collect()
    } else {
        got.to_vec()
    };
    let f = fmt_name(m.format);
    let n = if complete { exp.len().max(got.len()) } else { exp.len() };
    for i in 0..n {
        let e = exp.get(i);
        let g = got.get(i);
        if e == g {
            continue;
        }
        let what = match (e, g) {
            (Some(Out::Rec(_)), Some(Out::Rec(_))) => "wrong-record",
            (Some(Out::Rec(_)), Some(Out::End)) => "record-lost/early-end",
            (Some(Out::Rec(_)), Some(Out::Err(_))) => "record-lost/spurious-error",
            (Some(Out::Err(_)), Some(Out::Err(_))) => "wrong-error",
            (Some(Out::Err(_)), Some(Out::Rec(_))) => "invented-record/error-missed",
            (Some(Out::Err(_)), Some(Out::End)) => "error-missed",
            (Some(Out::End), Some(Out::Rec(_))) => "invented-record/after-end",
            (Some(Out::End), Some(Out::Err(_))) => "spurious-error/after-end",
            (Some(_), None) => "reading-stopped-early",
            (None, Some(_)) => "extra-output",
            _ => "mismatch",
        };
        return Err(Failure::new(
            format!("{}/read/{}", f, what),
            format!("item {}: expected {:?}, got {:?}\n  expected all: {:?}\n  got all:      {:?}", i, e, g, exp, got),
        ));
    }
    Ok(())
}
