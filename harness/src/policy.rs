//! RecPolicy: recording / refusing / slowly-growing / built-in-wrapping `BufPolicy` (DESIGN.md §3.4).

use seq_io::policy::{BufPolicy, DoubleUntil, DoubleUntilLimited, StdPolicy};
use serde_derive::{Deserialize, Serialize};
use std::cell::{Cell, RefCell};
use std::rc::Rc;

#[derive(Clone, Copy, Debug, PartialEq, Eq, Hash, Serialize, Deserialize)]
pub enum PolKind {
    /// the crate's `StdPolicy`
    Std,
    /// the crate's `DoubleUntil(t)`
    DoubleUntil(u32),
    /// the crate's `DoubleUntilLimited::new(t, limit)`
    DoubleUntilLimited(u32, u32),
    /// grows by k >= 1 bytes per request
    Add(u16),
    /// doubles, but refuses any size above the limit
    RefuseAbove(u32),
    /// always refuses
    RefuseAlways,
}

impl PolKind {
    pub fn can_refuse(&self) -> bool {
        matches!(self, PolKind::DoubleUntilLimited(..) | PolKind::RefuseAbove(_) | PolKind::RefuseAlways)
    }
    pub fn answer(&self, cur: usize) -> Option<usize> {
        match *self {
            PolKind::Std => StdPolicy.grow_to(cur),
            PolKind::DoubleUntil(t) => DoubleUntil(t.max(1) as usize).grow_to(cur),
            PolKind::DoubleUntilLimited(t, l) => DoubleUntilLimited::new(t.max(1) as usize, l as usize).grow_to(cur),
            PolKind::Add(k) => Some(cur + (k.max(1) as usize)),
            PolKind::RefuseAbove(l) => {
                let n = cur * 2;
                if n > l as usize {
                    None
                } else {
                    Some(n)
                }
            }
            PolKind::RefuseAlways => None,
        }
    }
}

#[derive(Clone, Debug, PartialEq, Eq)]
pub struct PolEvent {
    pub current: usize,
    pub answer: Option<usize>,
    /// number of records the interpreter had accounted as delivered when the request was made
    pub delivered: usize,
    /// index of the operation during which it was made
    pub op: usize,
    /// global sequence number over all policies of one run
    pub seq: usize,
}

#[derive(Default)]
pub struct Shared {
    pub delivered: Cell<usize>,
    pub op: Cell<usize>,
    pub seq: Cell<usize>,
    /// set when a policy answered with a size that is not larger than the current one (the reader would
    /// loop forever on it) or with an absurd size (> 4 GiB; the allocation would abort the process): the harness
    /// then refuses instead, and the checks report the flag
    pub bad_answer: Cell<Option<(usize, usize)>>,
    /// length of the whole input (0 = unknown). A growth request made while the buffer is already larger than the
    /// whole input cannot be justified by any record; it is refused (a runaway reader would otherwise exhaust the
    /// memory before any oracle runs) and flagged in `runaway`
    pub input_len: Cell<usize>,
    pub runaway: Cell<Option<usize>>,
    /// (current size, number of consecutive requests with that same size that were answered with a larger size):
    /// a reader that keeps asking without adopting the answer never returns and would fill the memory with log
    /// entries; after 10 000 such requests the harness refuses and flags `stalled`
    pub repeat: Cell<(usize, u32)>,
    pub stalled: Cell<Option<usize>>,
}

pub type PolLog = Rc<RefCell<Vec<PolEvent>>>;

pub struct RecPolicy {
    pub kind: PolKind,
    pub log: PolLog,
    pub shared: Rc<Shared>,
}

impl RecPolicy {
    pub fn new(kind: PolKind, shared: Rc<Shared>) -> (RecPolicy, PolLog) {
        let log: PolLog = Rc::new(RefCell::new(Vec::new()));
        (RecPolicy { kind, log: log.clone(), shared }, log)
    }
}

impl BufPolicy for RecPolicy {
    fn grow_to(&mut self, current_size: usize) -> Option<usize> {
        let mut answer = self.kind.answer(current_size);
        let input_len = self.shared.input_len.get();
        if input_len > 0 && current_size > input_len + 2 {
            if self.shared.runaway.get().is_none() {
                self.shared.runaway.set(Some(current_size));
            }
            answer = None;
        }
        if answer.is_some() {
            let (last, n) = self.shared.repeat.get();
            let n = if last == current_size { n + 1 } else { 0 };
            self.shared.repeat.set((current_size, n));
            if n >= 10_000 {
                if self.shared.stalled.get().is_none() {
                    self.shared.stalled.set(Some(current_size));
                }
                answer = None;
            }
        }
        if let Some(a) = answer {
            if a <= current_size || a > (1usize << 32) {
                // never hand such an answer to the reader (livelock / allocation failure); see `Shared::bad_answer`
                if self.shared.bad_answer.get().is_none() {
                    self.shared.bad_answer.set(Some((current_size, a)));
                }
                answer = None;
            }
        }
        let seq = self.shared.seq.get();
        self.shared.seq.set(seq + 1);
        self.log.borrow_mut().push(PolEvent {
            seq,
            current: current_size,
            answer,
            delivered: self.shared.delivered.get(),
            op: self.shared.op.get(),
        });
        answer
    }
}

/// `Send` policy without log (parallel tiers).
pub struct PlainPolicy(pub PolKind);
impl BufPolicy for PlainPolicy {
    fn grow_to(&mut self, current_size: usize) -> Option<usize> {
        self.0.answer(current_size)
    }
}
