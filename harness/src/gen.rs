//! proptest strategies (DESIGN.md §3.2): documents, byte soups, mutations, capacities, chunk
//! scripts, policies. Construction, not rejection: nothing here filters.

use crate::model::{Format, Model, Terminal};
use crate::policy::PolKind;
use crate::source::{Script, ALL_EK, EK};
use crate::util::{idx, B};
use proptest::collection::vec;
use proptest::prelude::*;
use serde_derive::{Deserialize, Serialize};

// ------------------------------------------------------------------------------------------------
// bytes

pub fn header_byte() -> BoxedStrategy<u8> {
    prop_oneof![
        12 => prop::sample::select(&b"abcxyzACGT019_"[..]),
        3 => Just(b' '),
        1 => Just(b'>'),
        1 => Just(b'@'),
        1 => Just(b'+'),
        1 => Just(b';'),
        1 => Just(b'\r'),
        2 => prop::sample::select(&[0x80u8, 0xc3, 0xa9, 0xff, 0xe2, 0x82, 0xac, 0x00, 0x09, 0x0b, 0x0c, 0x85, 0x1a, 0x7f][..]),
    ]
    .boxed()
}

pub fn seq_byte() -> BoxedStrategy<u8> {
    prop_oneof![
        20 => prop::sample::select(&b"ACGTN"[..]),
        1 => Just(b' '),
        1 => Just(b';'),
        1 => Just(b'\r'),
        1 => Just(b'@'),
        1 => Just(b'+'),
        1 => prop::sample::select(&[0xffu8, 0x80, b'-', b'*', 0x0b, 0x0c, 0x85, 0x00, b'>'][..]),
    ]
    .boxed()
}

pub fn qual_byte() -> BoxedStrategy<u8> {
    prop_oneof![
        20 => prop::sample::select(&b"!#5?IJ~"[..]),
        1 => Just(b'@'),
        1 => Just(b'+'),
        1 => Just(b'>'),
        1 => Just(b' '),
        1 => prop::sample::select(&[0xffu8, 0x80][..]),
    ]
    .boxed()
}

pub fn header() -> BoxedStrategy<Vec<u8>> {
    prop_oneof![
        32 => vec(header_byte(), 0..12),
        4 => Just(vec![]),
        4 => vec(header_byte(), 12..40),
        // multi-byte UTF-8 (split points anywhere), and lengths around 255 / 256
        2 => vec(prop::sample::select(&["a", "\u{e9}", "\u{20ac}", " ", "\u{1f9ec}", "x"][..]), 0..12).prop_map(|v| v.concat().into_bytes()),
        1 => (250usize..262, header_byte()).prop_map(|(n, b)| vec![if b == b'\r' { b'x' } else { b }; n]),
    ]
    .boxed()
}

// ------------------------------------------------------------------------------------------------
// FASTA documents

#[derive(Clone, Copy, Debug, PartialEq, Eq)]
pub enum Endings {
    Lf,
    Crlf,
    Mixed,
}

fn endings() -> BoxedStrategy<Endings> {
    prop_oneof![5 => Just(Endings::Lf), 3 => Just(Endings::Crlf), 2 => Just(Endings::Mixed)].boxed()
}

#[derive(Clone, Debug)]
pub struct FaRecSpec {
    pub head: Vec<u8>,
    pub lines: Vec<(Vec<u8>, bool)>,
    pub head_crlf: bool,
}

pub fn fa_line() -> BoxedStrategy<Vec<u8>> {
    prop_oneof![
        1 => Just(vec![]),
        8 => vec(seq_byte(), 1..20),
        1 => vec(seq_byte(), 20..70),
    ]
    .boxed()
}

pub fn fa_rec_spec() -> BoxedStrategy<FaRecSpec> {
    (header(), vec((fa_line(), any::<bool>()), 0..6), any::<bool>())
        .prop_map(|(head, lines, head_crlf)| FaRecSpec { head, lines, head_crlf })
        .boxed()
}

fn push_term(out: &mut Vec<u8>, e: Endings, crlf_bit: bool) {
    let crlf = match e {
        Endings::Lf => false,
        Endings::Crlf => true,
        Endings::Mixed => crlf_bit,
    };
    if crlf {
        out.push(b'\r');
    }
    out.push(b'\n');
}

/// `max_recs` records; `lead_max` leading blank lines.
pub fn fasta_doc_with(max_recs: usize, lead_max: usize) -> BoxedStrategy<B> {
    let lead = prop_oneof![
        6 => Just(vec![]),
        3 => vec(any::<bool>(), 1..4),
        1 => vec(any::<bool>(), 0..lead_max.max(1)),
    ];
    (lead, vec(fa_rec_spec(), 0..=max_recs), endings(), any::<bool>(), 0usize..8)
        .prop_map(|(lead, recs, e, final_term, trail)| {
            let mut out = Vec::new();
            for l in lead {
                push_term(&mut out, e, l);
            }
            for r in &recs {
                out.push(b'>');
                out.extend_from_slice(&r.head);
                push_term(&mut out, e, r.head_crlf);
                for (l, c) in &r.lines {
                    out.extend_from_slice(l);
                    push_term(&mut out, e, *c);
                }
            }
            // trailing blank lines (only values 5..8 add any, so most documents have none)
            for i in 0..trail.saturating_sub(5) {
                push_term(&mut out, e, i % 2 == 0);
            }
            if !final_term {
                // drop the final terminator
                if out.last() == Some(&b'\n') {
                    out.pop();
                    if e != Endings::Lf && out.last() == Some(&b'\r') {
                        out.pop();
                    }
                }
            }
            B(out)
        })
        .boxed()
}

pub fn fasta_doc() -> BoxedStrategy<B> {
    fasta_doc_with(8, 40)
}

// ------------------------------------------------------------------------------------------------
// FASTQ documents

#[derive(Clone, Debug)]
pub struct FqRecSpec {
    pub head: Vec<u8>,
    pub seq: Vec<u8>,
    pub qual_src: Vec<u8>,
    pub crlf: bool,
    pub sep_extra: Vec<u8>,
}

#[derive(Clone, Debug)]
pub enum Defect {
    None,
    /// replace the first byte of record i
    WrongStart(u16, u8),
    /// replace the first byte of the separator line of record i
    WrongSep(u16, u8),
    /// add (positive) / remove quality bytes of record i
    LenMismatch(u16, i8),
    /// cut the document at this (mapped) byte offset
    Truncate(u16),
    /// make one record use different terminators for sequence and quality line (out of the claimed domain)
    MixedTerm(u16),
    /// drop one line of record i entirely (shifts the 4-line framing)
    DropLine(u16, u8),
}

fn defect(allow_mixed: bool) -> BoxedStrategy<Defect> {
    let wrong = prop_oneof![
        4 => prop::sample::select(&b">+A;x \r\n"[..]),
        1 => any::<u8>(),
    ];
    let base = prop_oneof![
        6 => Just(Defect::None),
        2 => (any::<u16>(), wrong.clone()).prop_map(|(i, b)| Defect::WrongStart(i, b)),
        2 => (any::<u16>(), wrong).prop_map(|(i, b)| Defect::WrongSep(i, b)),
        2 => (any::<u16>(), prop_oneof![Just(-1i8), Just(1), Just(-3), Just(2)]).prop_map(|(i, d)| Defect::LenMismatch(i, d)),
        3 => any::<u16>().prop_map(Defect::Truncate),
        1 => (any::<u16>(), 0u8..4).prop_map(|(i, l)| Defect::DropLine(i, l)),
    ];
    if allow_mixed {
        prop_oneof![12 => base, 1 => any::<u16>().prop_map(Defect::MixedTerm)].boxed()
    } else {
        base.boxed()
    }
}

pub fn fq_rec_spec() -> BoxedStrategy<FqRecSpec> {
    let seq = prop_oneof![1 => Just(vec![]), 8 => vec(seq_byte(), 1..20), 1 => vec(seq_byte(), 20..60)];
    // separator line: bare '+' (usual), '+' followed by arbitrary text, or '+' followed by the repeated header (old style)
    (header(), seq, vec(qual_byte(), 60), any::<bool>(), prop_oneof![6 => Just(None), 1 => vec(header_byte(), 1..6).prop_map(Some), 1 => Just(Some(vec![]))])
        .prop_map(|(head, seq, qual_src, crlf, sep)| {
            let sep_extra = match sep {
                None => vec![],
                Some(v) if v.is_empty() => head.iter().cloned().filter(|b| *b != b'\r').collect(),
                Some(v) => v,
            };
            FqRecSpec { head, seq, qual_src, crlf, sep_extra }
        })
        .boxed()
}

pub fn render_fq(recs: &[FqRecSpec], e: Endings, final_term: bool, trail: usize, d: &Defect) -> Vec<u8> {
    let mut out = Vec::new();
    let n = recs.len();
    for (i, r) in recs.iter().enumerate() {
        let crlf = match e {
            Endings::Lf => false,
            Endings::Crlf => true,
            Endings::Mixed => r.crlf, // per record, never inside one
        };
        let term = |out: &mut Vec<u8>, c: bool| {
            if c {
                out.push(b'\r');
            }
            out.push(b'\n');
        };
        let hit = |j: u16| n > 0 && idx(j, n) == i;
        let mut qual: Vec<u8> = r.qual_src[..r.seq.len()].to_vec();
        let mut start = b'@';
        let mut sep = b'+';
        let mut seq_crlf = crlf;
        let mut drop_line = None;
        match *d {
            Defect::WrongStart(j, b) if hit(j) => start = b,
            Defect::WrongSep(j, b) if hit(j) => sep = b,
            Defect::LenMismatch(j, delta) if hit(j) => {
                if delta > 0 {
                    qual.extend(std::iter::repeat(b'I').take(delta as usize));
                } else {
                    let k = qual.len().saturating_sub((-delta) as usize);
                    if k == qual.len() {
                        qual.push(b'I');
                    } else {
                        qual.truncate(k);
                    }
                }
            }
            Defect::MixedTerm(j) if hit(j) => seq_crlf = !crlf,
            Defect::DropLine(j, l) if hit(j) => drop_line = Some(l),
            _ => {}
        }
        if drop_line != Some(0) {
            out.push(start);
            out.extend_from_slice(&r.head);
            term(&mut out, crlf);
        }
        if drop_line != Some(1) {
            out.extend_from_slice(&r.seq);
            term(&mut out, seq_crlf);
        }
        if drop_line != Some(2) {
            out.push(sep);
            out.extend_from_slice(&r.sep_extra);
            term(&mut out, crlf);
        }
        if drop_line != Some(3) {
            out.extend_from_slice(&qual);
            term(&mut out, crlf);
        }
    }
    let last_crlf = match e {
        Endings::Lf => false,
        Endings::Crlf => true,
        Endings::Mixed => recs.last().map_or(false, |r| r.crlf),
    };
    if !final_term && out.last() == Some(&b'\n') {
        out.pop();
        if last_crlf && out.last() == Some(&b'\r') {
            out.pop();
        }
    } else {
        for _ in 0..trail {
            if last_crlf {
                out.push(b'\r');
            }
            out.push(b'\n');
        }
    }
    if let Defect::Truncate(j) = *d {
        let k = idx(j, out.len() + 1);
        out.truncate(k);
    }
    out
}

pub fn fastq_doc_with(max_recs: usize, allow_mixed: bool) -> BoxedStrategy<B> {
    let trail = prop_oneof![6 => Just(0usize), 3 => 1usize..4, 1 => 4usize..7];
    (vec(fq_rec_spec(), 0..=max_recs), endings(), prop::bool::weighted(0.7), trail, defect(allow_mixed))
        .prop_map(|(recs, e, final_term, trail, d)| B(render_fq(&recs, e, final_term, trail, &d)))
        .boxed()
}

/// always with a defect (C17): wrong start / separator byte, length mismatch, truncation, dropped line
pub fn fastq_doc_defective(max_recs: usize) -> BoxedStrategy<B> {
    let wrong = prop_oneof![4 => prop::sample::select(&b">+A;x \r\n"[..]), 1 => any::<u8>()];
    let d = prop_oneof![
        3 => (any::<u16>(), wrong.clone()).prop_map(|(i, b)| Defect::WrongStart(i, b)),
        3 => (any::<u16>(), wrong).prop_map(|(i, b)| Defect::WrongSep(i, b)),
        3 => (any::<u16>(), prop_oneof![Just(-1i8), Just(1), Just(-3), Just(2)]).prop_map(|(i, d)| Defect::LenMismatch(i, d)),
        3 => any::<u16>().prop_map(Defect::Truncate),
        1 => (any::<u16>(), 0u8..4).prop_map(|(i, l)| Defect::DropLine(i, l)),
    ];
    let trail = prop_oneof![6 => Just(0usize), 2 => 1usize..3];
    (vec(fq_rec_spec(), 1..=max_recs), endings(), prop::bool::weighted(0.7), trail, d)
        .prop_map(|(recs, e, final_term, trail, d)| B(render_fq(&recs, e, final_term, trail, &d)))
        .boxed()
}

pub fn fastq_doc() -> BoxedStrategy<B> {
    fastq_doc_with(8, false)
}

/// well-formed only (no defect), used where the property quantifies over well-formed input
pub fn fastq_valid_doc(max_recs: usize) -> BoxedStrategy<B> {
    let trail = prop_oneof![6 => Just(0usize), 3 => 1usize..4];
    (vec(fq_rec_spec(), 0..=max_recs), endings(), prop::bool::weighted(0.7), trail)
        .prop_map(|(recs, e, final_term, trail)| B(render_fq(&recs, e, final_term, trail, &Defect::None)))
        .boxed()
}

// ------------------------------------------------------------------------------------------------
// soups and mutations

pub fn soup_byte(format: Format) -> BoxedStrategy<u8> {
    match format {
        Format::Fasta => prop_oneof![
            4 => Just(b'>'),
            6 => Just(b'\n'),
            3 => Just(b'\r'),
            6 => Just(b'A'),
            1 => Just(b' '),
            1 => Just(b';'),
            1 => Just(0xffu8),
        ]
        .boxed(),
        Format::Fastq => prop_oneof![
            4 => Just(b'@'),
            4 => Just(b'+'),
            8 => Just(b'\n'),
            3 => Just(b'\r'),
            6 => Just(b'A'),
            1 => Just(b' '),
            1 => Just(b'>'),
            1 => Just(0xffu8),
        ]
        .boxed(),
    }
}

pub fn byte_soup(format: Format) -> BoxedStrategy<B> {
    vec(soup_byte(format), 0..64).prop_map(B).boxed()
}

#[derive(Clone, Debug)]
pub enum Mutation {
    Insert(u16, u8),
    Delete(u16),
    Replace(u16, u8),
}

pub fn mutated(format: Format, doc: BoxedStrategy<B>) -> BoxedStrategy<B> {
    let m = prop_oneof![
        (any::<u16>(), soup_byte(format)).prop_map(|(p, b)| Mutation::Insert(p, b)),
        any::<u16>().prop_map(Mutation::Delete),
        (any::<u16>(), soup_byte(format)).prop_map(|(p, b)| Mutation::Replace(p, b)),
    ];
    (doc, vec(m, 1..=3))
        .prop_map(|(d, ms)| {
            let mut v = d.0;
            for m in ms {
                match m {
                    Mutation::Insert(p, b) => {
                        let i = idx(p, v.len() + 1);
                        v.insert(i, b);
                    }
                    Mutation::Delete(p) => {
                        if !v.is_empty() {
                            let i = idx(p, v.len());
                            v.remove(i);
                        }
                    }
                    Mutation::Replace(p, b) => {
                        if !v.is_empty() {
                            let i = idx(p, v.len());
                            v[i] = b;
                        }
                    }
                }
            }
            B(v)
        })
        .boxed()
}

/// The standard input mix for the "any byte string" properties.
pub fn any_input(format: Format, allow_mixed: bool) -> BoxedStrategy<B> {
    let doc = match format {
        Format::Fasta => fasta_doc(),
        Format::Fastq => fastq_doc_with(8, allow_mixed),
    };
    prop_oneof![
        20 => doc.clone(),
        8 => mutated(format, doc.clone()),
        12 => byte_soup(format),
        1 => long_read_doc(format),
        3 => mutated(format, long_read_doc(format)),
        1 => magic_prefixed(doc),
        1 => magic_prefixed(Just(B(vec![])).boxed()),
    ]
    .boxed()
}

pub fn format() -> BoxedStrategy<Format> {
    prop_oneof![Just(Format::Fasta), Just(Format::Fastq)].boxed()
}

// ------------------------------------------------------------------------------------------------
// capacities

#[derive(Clone, Debug)]
pub enum CapSpec {
    Abs(usize),
    /// input length + delta
    RelInput(i8),
    /// extent of record i + delta
    RelExtent(u16, i8),
    /// start offset of record i (or of the terminal group) + delta
    RelOffset(u16, i8),
    /// end offset of record i + delta
    RelEnd(u16, i8),
}

pub fn cap_spec() -> BoxedStrategy<CapSpec> {
    prop_oneof![
        8 => (3usize..=24).prop_map(CapSpec::Abs),
        2 => (25usize..=300).prop_map(CapSpec::Abs),
        1 => (-2i8..=2).prop_map(CapSpec::RelInput),
        3 => (any::<u16>(), -3i8..=3).prop_map(|(i, d)| CapSpec::RelExtent(i, d)),
        2 => (any::<u16>(), -3i8..=3).prop_map(|(i, d)| CapSpec::RelOffset(i, d)),
        2 => (any::<u16>(), -3i8..=3).prop_map(|(i, d)| CapSpec::RelEnd(i, d)),
    ]
    .boxed()
}

pub fn resolve_cap(spec: &CapSpec, m: &Model, input_len: usize) -> usize {
    let n = m.recs.len();
    let v: i64 = match *spec {
        CapSpec::Abs(c) => c as i64,
        CapSpec::RelInput(d) => input_len as i64 + d as i64,
        CapSpec::RelExtent(i, d) => {
            if n == 0 {
                3 + d.unsigned_abs() as i64
            } else {
                m.recs[idx(i, n)].extent as i64 + d as i64
            }
        }
        CapSpec::RelOffset(i, d) => {
            let k = idx(i, n + 1);
            let off = if k < n { m.recs[k].byte } else { m.term_byte };
            off as i64 + d as i64
        }
        CapSpec::RelEnd(i, d) => {
            if n == 0 {
                input_len as i64 + d as i64
            } else {
                let r = &m.recs[idx(i, n)];
                (r.byte + r.extent) as i64 + d as i64
            }
        }
    };
    v.clamp(3, 4096) as usize
}

/// (input, capacity) with the capacity resolved against the model of the input
pub fn input_and_cap(format: Format, input: BoxedStrategy<B>) -> BoxedStrategy<(B, usize)> {
    (input, cap_spec())
        .prop_map(move |(i, c)| {
            let m = Model::build(format, &i);
            let cap = resolve_cap(&c, &m, i.len());
            (i, cap)
        })
        .boxed()
}

// ------------------------------------------------------------------------------------------------
// chunk scripts, interrupts, faults

pub fn chunks() -> BoxedStrategy<Vec<u16>> {
    prop_oneof![
        4 => Just(vec![]),
        2 => Just(vec![1]),
        1 => Just(vec![2]),
        1 => Just(vec![3]),
        4 => vec(prop_oneof![3 => 1u16..5, 2 => 5u16..40, 1 => Just(0u16)], 1..6),
    ]
    .boxed()
}

pub fn interrupts() -> BoxedStrategy<Vec<u16>> {
    prop_oneof![
        12 => Just(vec![]),
        2 => vec(0u16..60, 1..8),
        2 => (0u16..40, 1u16..30).prop_map(|(s, n)| (s..s + n).collect()),
        // long bursts of consecutive interrupted reads (retry budgets, counters)
        1 => (0u16..20, prop_oneof![3 => 95u16..110, 1 => 250u16..262, 1 => 1000u16..1100]).prop_map(|(s, n)| (s..s + n).collect()),
    ]
    .boxed()
}

/// chunking + interrupts, no fault
pub fn script() -> BoxedStrategy<Script> {
    (chunks(), interrupts()).prop_map(|(chunks, interrupts)| Script { chunks, interrupts, fault: None, sticky: false, payload: 0 }).boxed()
}

pub fn ek() -> BoxedStrategy<EK> {
    prop::sample::select(&ALL_EK[..]).boxed()
}

/// what an injected io::Error carries (see `Script::payload`)
pub fn payload() -> BoxedStrategy<u8> {
    prop_oneof![4 => Just(0u8), 1 => 1u8..5].boxed()
}

pub fn script_with_fault(max_call: u32) -> BoxedStrategy<Script> {
    (chunks(), interrupts(), prop::option::weighted(0.7, (0..max_call, ek())), prop::bool::weighted(0.3), payload())
        .prop_map(|(chunks, interrupts, fault, sticky, payload)| Script { chunks, interrupts, fault, sticky, payload })
        .boxed()
}

// ------------------------------------------------------------------------------------------------
// policies

pub fn policy_permissive() -> BoxedStrategy<PolKind> {
    prop_oneof![
        4 => Just(PolKind::Std),
        2 => (1u32..64).prop_map(PolKind::DoubleUntil),
        2 => (1u16..8).prop_map(PolKind::Add),
        1 => (1u32..64).prop_map(|t| PolKind::DoubleUntilLimited(t, 1 << 30)),
    ]
    .boxed()
}

/// Policies whose growth steps are thousands of bytes (for documents with long records)
pub fn policy_big_steps() -> BoxedStrategy<PolKind> {
    prop_oneof![
        3 => prop_oneof![1000u16..4096, 4096u16..20000, Just(4096u16), Just(5000u16)].prop_map(PolKind::Add),
        2 => (1000u32..10000).prop_map(PolKind::DoubleUntil),
        2 => (1000u32..10000, 2000u32..20000).prop_map(|(t, l)| PolKind::DoubleUntilLimited(t, l)),
        1 => (300u32..6000).prop_map(PolKind::RefuseAbove),
    ]
    .boxed()
}

pub fn policy_any() -> BoxedStrategy<PolKind> {
    prop_oneof![
        4 => policy_permissive(),
        2 => (3u32..120).prop_map(PolKind::RefuseAbove),
        1 => Just(PolKind::RefuseAlways),
        2 => (1u32..40, 3u32..120).prop_map(|(t, l)| PolKind::DoubleUntilLimited(t, l)),
    ]
    .boxed()
}

// ------------------------------------------------------------------------------------------------
// the common "read configuration"

#[derive(Clone, Debug, PartialEq, Eq, Hash, Serialize, Deserialize)]
pub struct Cfg {
    pub cap: usize,
    pub policy: PolKind,
    pub script: Script,
}

pub fn term_kind(m: &Model) -> &'static str {
    match &m.term {
        Terminal::End => "end",
        Terminal::Unspecified => "unspecified",
        Terminal::Err(e) => e.kind(),
    }
}

// ------------------------------------------------------------------------------------------------
// big documents (tens of kilobytes, hundreds of records, capacities up to the 64 KiB default)

pub fn render_big(format: Format, recs: &[(usize, usize, u8)], e: Endings, final_term: bool, width: usize) -> Vec<u8> {
    let mut out = Vec::new();
    let mut bit = 0usize;
    let mut term = |out: &mut Vec<u8>| {
        bit += 1;
        let crlf = match e {
            Endings::Lf => false,
            Endings::Crlf => true,
            Endings::Mixed => bit % 3 == 0,
        };
        if crlf {
            out.push(b'\r');
        }
        out.push(b'\n');
    };
    for (i, (idlen, slen, salt)) in recs.iter().enumerate() {
        let id: Vec<u8> = format!("r{}_{}", i, "x".repeat(*idlen)).into_bytes();
        let seq: Vec<u8> = (0..*slen).map(|k| b"ACGTN"[(k + *salt as usize + i) % 5]).collect();
        match format {
            Format::Fasta => {
                out.push(b'>');
                out.extend_from_slice(&id);
                term(&mut out);
                for l in seq.chunks(width) {
                    out.extend_from_slice(l);
                    term(&mut out);
                }
            }
            Format::Fastq => {
                // per record one ending (never mixed inside a record)
                let crlf = match e {
                    Endings::Lf => false,
                    Endings::Crlf => true,
                    Endings::Mixed => i % 2 == 0,
                };
                let t: &[u8] = if crlf { b"\r\n" } else { b"\n" };
                out.push(b'@');
                out.extend_from_slice(&id);
                out.extend_from_slice(t);
                out.extend_from_slice(&seq);
                out.extend_from_slice(t);
                out.push(b'+');
                out.extend_from_slice(t);
                out.extend(std::iter::repeat(b'I').take(seq.len()));
                out.extend_from_slice(t);
            }
        }
    }
    if !final_term {
        while matches!(out.last(), Some(b'\n') | Some(b'\r')) {
            out.pop();
        }
    }
    out
}

/// Few records with long lines (sequence 100..1500 bytes, lengths around 128 / 256 / 1024 over-weighted): the
/// sizes at which parsers switch to vectorised searches or shortcuts.
pub fn long_read_doc(format: Format) -> BoxedStrategy<B> {
    let slen = prop_oneof![3 => 100usize..300, 1 => 120usize..136, 1 => 250usize..262, 2 => 1000usize..1100, 2 => 300usize..1500, 3 => 0usize..3];
    (vec((1usize..6, slen, any::<u8>()), 1..5), endings(), any::<bool>(), prop_oneof![2 => Just(100000usize), 1 => 40usize..400], prop_oneof![3 => Just(0usize), 1 => 1usize..3])
        .prop_map(move |(recs, e, final_term, width, lead)| {
            let mut v = if format == Format::Fasta { vec![b'\n'; lead] } else { vec![] };
            v.extend_from_slice(&render_big(format, &recs, e, final_term, width));
            B(v)
        })
        .boxed()
}

/// Inputs that start with the signature of another file type (byte order marks, gzip, ...) in front of an
/// otherwise ordinary document: the parser has to treat these bytes like any others.
pub fn magic_prefixed(doc: BoxedStrategy<B>) -> BoxedStrategy<B> {
    let magic: &'static [&'static [u8]] = &[b"\xef\xbb\xbf", b"\xff\xfe", b"\xfe\xff", b"\x1f\x8b", b"\xef\xbb", b"\xef", b"\xef\xbb\xbf\xef\xbb\xbf", b"\n\xef\xbb\xbf", b"\x00", b"BZh", b"\x28\xb5\x2f\xfd", b"#", b";"];
    (prop::sample::select(magic), doc)
        .prop_map(|(m, d)| {
            let mut v = m.to_vec();
            v.extend_from_slice(&d.0);
            B(v)
        })
        .boxed()
}

pub fn big_input(format: Format) -> BoxedStrategy<B> {
    let rec = (prop_oneof![8 => 1usize..12, 1 => 240usize..270], prop_oneof![3 => 0usize..80, 2 => 80usize..400, 1 => 400usize..3000], any::<u8>());
    (prop_oneof![4 => vec(rec.clone(), 20..200), 1 => vec((1usize..4, 0usize..12, any::<u8>()), 250..700)], endings(), any::<bool>(), prop_oneof![1 => Just(60usize), 1 => Just(70usize), 1 => 1usize..200], prop::option::weighted(0.3, any::<u16>()), prop::option::weighted(0.3, (any::<u16>(), 0u8..6)), prop::option::weighted(0.12, (66_000usize..200_000, 0u8..4, 0u8..4)))
        .prop_map(move |(recs, e, final_term, width, truncate, point, tail)| {
            let mut out = render_big(format, &recs, e, final_term, width);
            // one point defect somewhere in the document (most bytes belong to long records)
            if let Some((p, kind)) = point {
                if !out.is_empty() {
                    let i = idx(p, out.len());
                    match kind % 6 {
                        0 => out[i] = b'\n',
                        1 => {
                            out.remove(i);
                        }
                        2 => out.insert(i, b'\n'),
                        3 => out[i] = if format == Format::Fasta { b'>' } else { b'@' },
                        4 => out.insert(i, b'A'),
                        _ => out[i] = b'\r',
                    }
                }
            }
            if let Some(t) = truncate {
                let k = idx(t, out.len() + 1);
                out.truncate(k);
            }
            if let Some((len, kind, breaks)) = tail {
                out.extend_from_slice(&garbage_tail(len, kind, breaks));
            }
            B(out)
        })
        .boxed()
}

/// A tail of more than 64 KiB that is not a record: zero padding, a repeated byte or text, with 0..3 line breaks in
/// it (never starting with a record start byte).
pub fn garbage_tail(len: usize, kind: u8, breaks: u8) -> Vec<u8> {
    let mut v: Vec<u8> = match kind % 4 {
        0 => vec![0u8; len],
        1 => vec![b'x'; len],
        2 => b"lorem ipsum ".iter().cycle().take(len).cloned().collect(),
        _ => (0..len).map(|i| b"ACGT\x00\xff;"[i % 7]).collect(),
    };
    for b in 0..breaks as usize {
        let p = (len / 5) * (b + 1) + b * 17;
        if p + 1 < len {
            v[p] = b'\n';
            // (the byte after a line break must not look like a record start)
            if v[p + 1] == b'@' || v[p + 1] == b'>' {
                v[p + 1] = b'x';
            }
        }
    }
    v
}

/// A few valid FASTQ records followed by a garbage tail (see `garbage_tail`): the input is truncated / invalid, and
/// which of the two is reported must not depend on how much of the tail fits the buffer.
pub fn fastq_garbage_tail_doc() -> BoxedStrategy<B> {
    (fastq_valid_doc(4), 66_000usize..300_000, 0u8..4, 0u8..4)
        .prop_map(|(d, len, kind, breaks)| {
            let mut v = d.0;
            if v.last().map_or(false, |b| *b != b'\n') {
                v.push(b'\n');
            }
            v.extend_from_slice(&garbage_tail(len, kind, breaks));
            B(v)
        })
        .boxed()
}

/// A defective FASTQ record whose id is thousands of bytes long (after 0..3 valid records).
pub fn fastq_long_id_defective() -> BoxedStrategy<B> {
    let id_len = prop_oneof![3 => 1000usize..1100, 2 => 4000usize..4200, 1 => 65_530usize..65_545, 1 => 70_000usize..70_010];
    (fastq_valid_doc(3), id_len, any::<bool>(), 0u8..4, any::<bool>())
        .prop_map(|(d, id_len, with_desc, defect, crlf)| {
            let mut v = d.0;
            if v.last().map_or(false, |b| *b != b'\n') {
                v.push(b'\n');
            }
            let t: &[u8] = if crlf { b"\r\n" } else { b"\n" };
            v.push(b'@');
            v.extend((0..id_len).map(|i| b"identifier_"[i % 11]));
            if with_desc {
                v.extend_from_slice(b" some description");
            }
            v.extend_from_slice(t);
            v.extend_from_slice(b"ACGTACGT");
            v.extend_from_slice(t);
            match defect {
                0 => {
                    // unequal lengths
                    v.extend_from_slice(b"+");
                    v.extend_from_slice(t);
                    v.extend_from_slice(b"IIII");
                    v.extend_from_slice(t);
                }
                1 => {
                    // wrong separator
                    v.extend_from_slice(b"-");
                    v.extend_from_slice(t);
                    v.extend_from_slice(b"IIIIIIII");
                    v.extend_from_slice(t);
                }
                2 => {
                    // truncated after the separator line
                    v.extend_from_slice(b"+");
                    v.extend_from_slice(t);
                }
                _ => {} // truncated after the sequence line
            }
            B(v)
        })
        .boxed()
}

/// A well-formed document of EXACTLY `total` bytes (records of ~200 bytes, the last one sized to fit), with or without
/// a final line terminator: total lengths at and around 2^12 / 2^16 / 2^17, where a whole input that sits in one buffer
/// has an end offset that no longer fits a narrower integer.
pub fn exact_len_doc(format: Format) -> BoxedStrategy<B> {
    let total = prop_oneof![4 => 65_534usize..65_539, 2 => 131_070usize..131_075, 1 => 4094usize..4099, 1 => 262_142usize..262_147];
    (total, any::<bool>(), 20usize..200)
        .prop_map(move |(total, final_term, seq_len)| {
            let mut v: Vec<u8> = Vec::with_capacity(total + 8);
            let mut i = 0usize;
            let rec = |v: &mut Vec<u8>, head: &str, l: usize, term: bool| {
                match format {
                    Format::Fasta => {
                        v.push(b'>');
                        v.extend_from_slice(head.as_bytes());
                        v.push(b'\n');
                        v.extend((0..l).map(|k| b"ACGT"[k & 3]));
                    }
                    Format::Fastq => {
                        v.push(b'@');
                        v.extend_from_slice(head.as_bytes());
                        v.push(b'\n');
                        v.extend((0..l).map(|k| b"ACGT"[k & 3]));
                        v.extend_from_slice(b"\n+\n");
                        v.extend(std::iter::repeat(b'I').take(l));
                    }
                }
                if term {
                    v.push(b'\n');
                }
            };
            // ordinary records while at least 1000 bytes remain
            while v.len() + 1000 < total {
                rec(&mut v, &format!("r{}", i), seq_len, true);
                i += 1;
            }
            // the last record fills the rest exactly
            let rest = total - v.len();
            let ft = final_term as usize;
            match format {
                Format::Fasta => {
                    // '>' head '\n' seq [\n]
                    let head = "last";
                    let l = rest.saturating_sub(1 + head.len() + 1 + ft);
                    rec(&mut v, head, l, final_term);
                }
                Format::Fastq => {
                    // '@' head '\n' seq "\n+\n" qual [\n]  = 1 + h + 1 + l + 3 + l + ft
                    let fixed = 5 + ft;
                    let mut head = "last".to_string();
                    if (rest - fixed - head.len()) % 2 == 1 {
                        head.push('x');
                    }
                    let l = (rest - fixed - head.len()) / 2;
                    rec(&mut v, &head, l, final_term);
                }
            }
            debug_assert_eq!(v.len(), total);
            B(v)
        })
        .boxed()
}

pub fn big_cap() -> BoxedStrategy<usize> {
    prop_oneof![2 => 3usize..300, 3 => 300usize..5000, 2 => 5000usize..70000, 2 => Just(65536usize), 1 => Just(1usize << 17)].boxed()
}
