//! ScriptedSource: `Read + Seek` over a byte vector with scripted chunking, `Interrupted` results,
//! injected faults, a call log and a deterministic step budget (DESIGN.md §3.3).

use serde_derive::{Deserialize, Serialize};
use std::cell::RefCell;
use std::io::{self, Read, Seek, SeekFrom};
use std::rc::Rc;

#[derive(Clone, Copy, Debug, PartialEq, Eq, Hash, Serialize, Deserialize)]
pub enum EK {
    Other,
    PermissionDenied,
    UnexpectedEof,
    WouldBlock,
    TimedOut,
    InvalidData,
    BrokenPipe,
    InvalidInput,
    NotFound,
    ConnectionReset,
}

pub const ALL_EK: [EK; 10] = [
    EK::Other,
    EK::PermissionDenied,
    EK::UnexpectedEof,
    EK::WouldBlock,
    EK::TimedOut,
    EK::InvalidData,
    EK::BrokenPipe,
    EK::InvalidInput,
    EK::NotFound,
    EK::ConnectionReset,
];

impl EK {
    pub fn kind(self) -> io::ErrorKind {
        match self {
            EK::Other => io::ErrorKind::Other,
            EK::PermissionDenied => io::ErrorKind::PermissionDenied,
            EK::UnexpectedEof => io::ErrorKind::UnexpectedEof,
            EK::WouldBlock => io::ErrorKind::WouldBlock,
            EK::TimedOut => io::ErrorKind::TimedOut,
            EK::InvalidData => io::ErrorKind::InvalidData,
            EK::BrokenPipe => io::ErrorKind::BrokenPipe,
            EK::InvalidInput => io::ErrorKind::InvalidInput,
            EK::NotFound => io::ErrorKind::NotFound,
            EK::ConnectionReset => io::ErrorKind::ConnectionReset,
        }
    }
    pub fn name(self) -> String {
        format!("{:?}", self.kind())
    }
}

pub const FAULT_MSG: &str = "verif-injected-fault";

/// The injected error: kind `kind`, payload chosen by `payload` (see `Script::payload`).
pub fn fault_error(kind: io::ErrorKind, payload: u8) -> io::Error {
    match payload % 5 {
        1 => io::Error::new(kind, seq_io::fasta::Error::InvalidStart { line: 3, found: b'x' }),
        2 => io::Error::new(kind, seq_io::fastq::Error::UnexpectedEnd { pos: seq_io::fastq::ErrorPosition { line: 7, id: Some("inner".to_string()) } }),
        3 => io::Error::new(kind, io::Error::new(io::ErrorKind::UnexpectedEof, "inner io error")),
        4 => io::Error::from(kind),
        _ => io::Error::new(kind, FAULT_MSG),
    }
}
pub const BUDGET_MSG: &str = "verif-step-budget-exceeded";

#[derive(Clone, Debug, PartialEq, Eq, Hash, Serialize, Deserialize, Default)]
pub struct Script {
    /// per-`read` byte limits, cycled; 0 = "as much as requested"; empty = always everything
    pub chunks: Vec<u16>,
    /// indices (counting read *attempts*, interrupted ones included) that return `Interrupted`
    pub interrupts: Vec<u16>,
    /// fault at the k-th source call (reads and seeks counted together, interrupted attempts not counted)
    pub fault: Option<(u32, EK)>,
    /// all calls after the fault fail as well
    pub sticky: bool,
    /// what the injected io::Error carries: 0 = a text message; 1 = a fasta::Error (as a `Read` adaptor built on a
    /// FASTA reader would produce); 2 = a fastq::Error; 3 = another io::Error; 4 = no payload (from the bare kind)
    #[serde(default)]
    pub payload: u8,
}

#[derive(Clone, Copy, Debug, PartialEq, Eq)]
pub enum CallKind {
    Read,
    Seek,
}

#[derive(Clone, Debug, PartialEq, Eq)]
pub struct Call {
    pub kind: CallKind,
    /// requested length (read) / target offset (seek)
    pub arg: u64,
    /// Ok(n) / Err(kind name)
    pub result: Result<u64, String>,
}

#[derive(Default, Debug)]
pub struct SrcLog {
    pub calls: Vec<Call>,
    pub attempts: usize,
    pub interrupted: usize,
    pub faults_fired: usize,
    pub budget_exceeded: bool,
    pub max_req: usize,
    pub bytes_delivered: usize,
    pub eof_reads: usize,
    /// (current, answer) of a growth policy answer that was not larger than the current size or absurdly large
    pub bad_policy: Option<(usize, usize)>,
    /// buffer size at which the policy was asked to grow although the buffer already exceeded the whole input
    pub runaway: Option<usize>,
    /// buffer size with which the policy was asked 10 000 times in a row although every answer was larger
    pub stalled: Option<usize>,
}

pub type SharedLog = Rc<RefCell<SrcLog>>;

pub struct Source {
    data: Rc<Vec<u8>>,
    pos: usize,
    script: Script,
    chunk_i: usize,
    budget: usize,
    fault_fired: bool,
    log: SharedLog,
}

impl Source {
    pub fn new(data: Rc<Vec<u8>>, script: Script, budget: usize) -> (Source, SharedLog) {
        let log: SharedLog = Rc::new(RefCell::new(SrcLog::default()));
        (
            Source { data, pos: 0, script, chunk_i: 0, budget, fault_fired: false, log: log.clone() },
            log,
        )
    }

    /// returns Some(err) if this (counted) call must fail
    fn counted_call(&mut self) -> Option<io::Error> {
        let n = self.log.borrow().calls.len();
        if n >= self.budget {
            self.log.borrow_mut().budget_exceeded = true;
            return Some(io::Error::new(io::ErrorKind::Other, BUDGET_MSG));
        }
        if let Some((k, ek)) = self.script.fault {
            if n as u32 == k || (self.script.sticky && self.fault_fired && n as u32 > k) {
                self.fault_fired = true;
                self.log.borrow_mut().faults_fired += 1;
                return Some(fault_error(ek.kind(), self.script.payload));
            }
        }
        None
    }
}

impl Read for Source {
    fn read(&mut self, buf: &mut [u8]) -> io::Result<usize> {
        {
            let mut log = self.log.borrow_mut();
            let a = log.attempts;
            log.attempts += 1;
            if log.interrupted < 100_000 && self.script.interrupts.iter().any(|&i| i as usize == a) {
                log.interrupted += 1;
                return Err(io::Error::new(io::ErrorKind::Interrupted, "verif-interrupted"));
            }
        }
        if let Some(e) = self.counted_call() {
            let name = format!("{:?}", e.kind());
            self.log.borrow_mut().calls.push(Call { kind: CallKind::Read, arg: buf.len() as u64, result: Err(name) });
            return Err(e);
        }
        let limit = if self.script.chunks.is_empty() {
            0
        } else {
            let l = self.script.chunks[self.chunk_i % self.script.chunks.len()];
            self.chunk_i += 1;
            l as usize
        };
        let avail = self.data.len().saturating_sub(self.pos);
        let mut n = buf.len().min(avail);
        if limit > 0 {
            n = n.min(limit);
        }
        // (a position beyond the end is legal for a seekable source: reads there return 0)
        let start = self.pos.min(self.data.len());
        buf[..n].copy_from_slice(&self.data[start..start + n]);
        self.pos += n;
        let mut log = self.log.borrow_mut();
        log.max_req = log.max_req.max(buf.len());
        log.bytes_delivered += n;
        if n == 0 && !buf.is_empty() {
            log.eof_reads += 1;
        }
        log.calls.push(Call { kind: CallKind::Read, arg: buf.len() as u64, result: Ok(n as u64) });
        Ok(n)
    }
}

impl Seek for Source {
    fn seek(&mut self, to: SeekFrom) -> io::Result<u64> {
        let target = match to {
            SeekFrom::Start(o) => o as i64,
            SeekFrom::Current(d) => self.pos as i64 + d,
            SeekFrom::End(d) => self.data.len() as i64 + d,
        };
        if let Some(e) = self.counted_call() {
            let name = format!("{:?}", e.kind());
            self.log.borrow_mut().calls.push(Call { kind: CallKind::Seek, arg: target.max(0) as u64, result: Err(name) });
            return Err(e);
        }
        if target < 0 {
            self.log.borrow_mut().calls.push(Call {
                kind: CallKind::Seek,
                arg: 0,
                result: Err("InvalidInput".into()),
            });
            return Err(io::Error::new(io::ErrorKind::InvalidInput, "negative seek"));
        }
        self.pos = target as usize;
        self.log.borrow_mut().calls.push(Call { kind: CallKind::Seek, arg: target as u64, result: Ok(target as u64) });
        Ok(target as u64)
    }
}

/// `Send` reader used by the parallel tiers: plain chunking, no log.
pub struct ChunkedSend {
    pub data: Vec<u8>,
    pub pos: usize,
    pub chunks: Vec<u16>,
    pub i: usize,
}

impl ChunkedSend {
    pub fn new(data: Vec<u8>, chunks: Vec<u16>) -> Self {
        ChunkedSend { data, pos: 0, chunks, i: 0 }
    }
}

impl Read for ChunkedSend {
    fn read(&mut self, buf: &mut [u8]) -> io::Result<usize> {
        let limit = if self.chunks.is_empty() {
            0
        } else {
            let l = self.chunks[self.i % self.chunks.len()];
            self.i += 1;
            l as usize
        };
        let avail = self.data.len() - self.pos;
        let mut n = buf.len().min(avail);
        if limit > 0 {
            n = n.min(limit);
        }
        // (a position beyond the end is legal for a seekable source: reads there return 0)
        let start = self.pos.min(self.data.len());
        buf[..n].copy_from_slice(&self.data[start..start + n]);
        self.pos += n;
        Ok(n)
    }
}

impl Seek for ChunkedSend {
    fn seek(&mut self, to: SeekFrom) -> io::Result<u64> {
        let target = match to {
            SeekFrom::Start(o) => o as i64,
            SeekFrom::Current(d) => self.pos as i64 + d,
            SeekFrom::End(d) => self.data.len() as i64 + d,
        };
        if target < 0 {
            return Err(io::Error::new(io::ErrorKind::InvalidInput, "negative seek"));
        }
        self.pos = (target as usize).min(self.data.len());
        Ok(self.pos as u64)
    }
}
