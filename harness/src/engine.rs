//! Engine: proptest `TestRunner` driven from a binary; seeding, worker threads, classification
//! counters, samples, shrinking -> replay JSON, evidence JSON, known-finding matching, exit codes.
//! (DESIGN.md §2)

use proptest::strategy::{BoxedStrategy, Strategy};
use proptest::test_runner::{Config, RngAlgorithm, RngSeed, TestCaseError, TestError, TestRunner};
use serde::de::DeserializeOwned;
use serde::Serialize;
use serde_json::{json, Value};
use std::cell::RefCell;
use std::collections::{BTreeMap, HashSet};
use std::fmt::Debug;
use std::hash::Hash;
use std::panic::{self, AssertUnwindSafe};
use std::path::{Path, PathBuf};
use std::time::Instant;

use crate::util::h64;

pub const VERIF_DIR: &str = "/verif";

/// directory holding replays/, evidence/, failures/, KNOWN_FINDINGS.txt: $SEQIO_VERIF_DIR (set by check.sh to
/// its own location, so a snapshot run writes into the snapshot) or /verif
pub fn verif_dir() -> PathBuf {
    match std::env::var("SEQIO_VERIF_DIR") {
        Ok(d) if !d.is_empty() => PathBuf::from(d),
        _ => PathBuf::from(VERIF_DIR),
    }
}

#[derive(Clone, Copy, Debug, PartialEq, Eq)]
pub enum Tier {
    Quick,
    Thorough,
}

impl Tier {
    pub fn name(self) -> &'static str {
        match self {
            Tier::Quick => "quick",
            Tier::Thorough => "thorough",
        }
    }
    /// picks a count by tier
    pub fn pick(self, quick: u64, thorough: u64) -> u64 {
        let base = match self {
            Tier::Quick => quick,
            Tier::Thorough => thorough,
        };
        let scale: f64 = std::env::var("VERIF_SCALE").ok().and_then(|s| s.parse().ok()).unwrap_or(1.0);
        ((base as f64) * scale).max(1.0) as u64
    }
}

#[derive(Clone, Debug)]
pub struct Failure {
    /// structural signature of the failing situation (known-finding key)
    pub sig: String,
    pub msg: String,
}

impl Failure {
    pub fn new(sig: impl Into<String>, msg: impl Into<String>) -> Failure {
        Failure { sig: sig.into(), msg: msg.into() }
    }
}

pub type CheckResult = Result<(), Failure>;

#[macro_export]
macro_rules! fail {
    ($sig:expr, $($arg:tt)*) => {
        return Err($crate::engine::Failure::new($sig, format!($($arg)*)))
    };
}

#[macro_export]
macro_rules! ensure {
    ($cond:expr, $sig:expr, $($arg:tt)*) => {
        if !($cond) {
            return Err($crate::engine::Failure::new($sig, format!($($arg)*)));
        }
    };
}

/// Per-worker counters.
#[derive(Default)]
pub struct Ctx {
    pub evaluations: u64,
    pub nontrivial: HashSet<u64>,
    pub classes: BTreeMap<String, u64>,
    pub samples: Vec<Value>,
    pub counting: bool,
    pub collect_samples: bool,
    pub known_hit: BTreeMap<String, u64>,
    nontrivial_seen_for_sample: u64,
}

impl Ctx {
    pub fn new(collect_samples: bool) -> Ctx {
        Ctx { counting: true, collect_samples, ..Default::default() }
    }
    #[inline]
    pub fn class(&mut self, name: &str) {
        if self.counting {
            *self.classes.entry(name.to_string()).or_insert(0) += 1;
        }
    }
    #[inline]
    pub fn class_n(&mut self, name: &str, n: u64) {
        if self.counting && n > 0 {
            *self.classes.entry(name.to_string()).or_insert(0) += n;
        }
    }
    /// counts an evaluation (one case / one execution)
    #[inline]
    pub fn eval(&mut self) {
        if self.counting {
            self.evaluations += 1;
        }
    }
    /// marks the case with this key as non-trivial; `sample` is rendered lazily for the first few
    pub fn nontrivial<K: Hash + ?Sized, S: Serialize>(&mut self, key: &K, sample: &S) {
        if !self.counting {
            return;
        }
        let new = self.nontrivial.insert(h64(key));
        if new && self.collect_samples {
            self.nontrivial_seen_for_sample += 1;
            let k = self.nontrivial_seen_for_sample;
            // first three, then a few at fixed indices
            if k <= 3 || k == 50 || k == 500 || k == 5000 {
                if let Ok(v) = serde_json::to_value(sample) {
                    self.samples.push(truncate(v));
                }
            }
        }
    }
    fn merge(&mut self, o: Ctx) {
        self.evaluations += o.evaluations;
        self.nontrivial.extend(o.nontrivial);
        for (k, v) in o.classes {
            *self.classes.entry(k).or_insert(0) += v;
        }
        self.samples.extend(o.samples);
        for (k, v) in o.known_hit {
            *self.known_hit.entry(k).or_insert(0) += v;
        }
    }
}

fn truncate(v: Value) -> Value {
    match v {
        Value::String(s) if s.len() > 400 => {
            let mut cut = 400;
            while !s.is_char_boundary(cut) {
                cut -= 1;
            }
            Value::String(format!("{}…[{} bytes]", &s[..cut], s.len()))
        }
        Value::Array(a) => {
            let n = a.len();
            let mut out: Vec<Value> = a.into_iter().take(40).map(truncate).collect();
            if n > 40 {
                out.push(Value::String(format!("…[{} items]", n)));
            }
            Value::Array(out)
        }
        Value::Object(o) => Value::Object(o.into_iter().map(|(k, v)| (k, truncate(v))).collect()),
        v => v,
    }
}

pub trait Prop: Sync {
    type Case: Debug + Clone + Serialize + DeserializeOwned + Send + 'static;
    fn strategy(&self, tier: Tier) -> BoxedStrategy<Self::Case>;
    fn check(&self, case: &Self::Case, ctx: &mut Ctx) -> CheckResult;
    /// the raw input bytes of a case, if it has any: after proptest's own shrinking the engine minimises them
    /// further byte-wise (delta debugging), keeping the failure signature
    fn input_bytes<'a>(&self, _case: &'a mut Self::Case) -> Option<&'a mut Vec<u8>> {
        None
    }
}

/// ddmin over the input bytes of a failing case: remove windows of decreasing size while the check keeps failing
/// with the same signature. Bounded work; deterministic.
pub fn minimise_bytes<P: Prop>(p: &P, case: &mut P::Case, sig: &str) {
    let mut budget = 4000usize;
    let fails = |c: &P::Case, budget: &mut usize| -> bool {
        if *budget == 0 {
            return false;
        }
        *budget -= 1;
        let mut scratch = Ctx::new(false);
        scratch.counting = false;
        matches!(guarded(|| p.check(c, &mut scratch)), Err(f) if f.sig == sig)
    };
    let len0 = match p.input_bytes(case) {
        Some(b) => b.len(),
        None => return,
    };
    let mut window = (len0 / 2).max(1);
    loop {
        let mut i = 0;
        loop {
            let cur: Vec<u8> = p.input_bytes(case).unwrap().clone();
            if i >= cur.len() {
                break;
            }
            let end = (i + window).min(cur.len());
            let mut cand = cur.clone();
            cand.drain(i..end);
            *p.input_bytes(case).unwrap() = cand;
            if fails(case, &mut budget) {
                // keep the removal, stay at the same index
            } else {
                *p.input_bytes(case).unwrap() = cur;
                i += window;
            }
            if budget == 0 {
                return;
            }
        }
        if window == 1 {
            break;
        }
        window = (window / 2).max(1);
    }
}

// ---------------------------------------------------------------------------------------------
// panic capture (lock-free: thread-local only)

thread_local! {
    static LAST_PANIC: RefCell<Vec<(String, String)>> = const { RefCell::new(Vec::new()) };
    static QUIET: RefCell<bool> = const { RefCell::new(false) };
}

pub fn install_panic_hook() {
    let default = panic::take_hook();
    panic::set_hook(Box::new(move |info| {
        let quiet = QUIET.with(|q| *q.borrow());
        if !quiet {
            default(info);
            return;
        }
        let loc = info.location().map(|l| format!("{}:{}", l.file(), l.line())).unwrap_or_else(|| "?".into());
        let msg = if let Some(s) = info.payload().downcast_ref::<&str>() {
            s.to_string()
        } else if let Some(s) = info.payload().downcast_ref::<String>() {
            s.clone()
        } else {
            "<non-string panic payload>".into()
        };
        LAST_PANIC.with(|p| {
            let mut v = p.borrow_mut();
            if v.len() < 8 {
                v.push((loc, msg));
            }
        });
    }));
}

/// Runs `f` with panics captured; a panic becomes a `Failure` whose signature is the panic location.
pub fn guarded<F: FnOnce() -> CheckResult>(f: F) -> CheckResult {
    QUIET.with(|q| *q.borrow_mut() = true);
    LAST_PANIC.with(|p| p.borrow_mut().clear());
    let r = panic::catch_unwind(AssertUnwindSafe(f));
    QUIET.with(|q| *q.borrow_mut() = false);
    match r {
        Ok(r) => r,
        Err(_) => {
            // the first panic is the cause; later ones (e.g. a scheduler re-raising it) are appended
            let all = LAST_PANIC.with(|p| std::mem::take(&mut *p.borrow_mut()));
            let (loc, msg) = all.first().cloned().unwrap_or(("?".into(), "?".into()));
            let short = loc.rsplit('/').next().unwrap_or(&loc).to_string();
            let mut text = format!("panic at {}: {}", loc, msg);
            for (l, m) in all.iter().skip(1) {
                text.push_str(&format!("\n  then panic at {}: {}", l, m));
            }
            Err(Failure::new(format!("panic@{}", short), text))
        }
    }
}

// ---------------------------------------------------------------------------------------------
// activity watchdog for the phases that do not have typed per-case slots (replays, enumerations)

struct Activity {
    id: u64,
    since: Instant,
    label: String,
}

static ACTIVITIES: std::sync::Mutex<Vec<Activity>> = std::sync::Mutex::new(Vec::new());
static NEXT_ACTIVITY: std::sync::atomic::AtomicU64 = std::sync::atomic::AtomicU64::new(1);
static MONITOR: std::sync::Once = std::sync::Once::new();

pub fn case_timeout_s() -> u64 {
    std::env::var("VERIF_CASE_TIMEOUT").ok().and_then(|v| v.parse().ok()).unwrap_or(180)
}

pub struct ActivityGuard(u64);

impl Drop for ActivityGuard {
    fn drop(&mut self) {
        if let Ok(mut a) = ACTIVITIES.lock() {
            a.retain(|x| x.id != self.0);
        }
    }
}

/// Registers a unit of work (one replay file, one block of an enumeration). If it is still registered after
/// VERIF_CASE_TIMEOUT seconds the process reports INCONCLUSIVE and exits with code 2.
pub fn activity(label: String) -> ActivityGuard {
    MONITOR.call_once(|| {
        std::thread::spawn(|| loop {
            std::thread::sleep(std::time::Duration::from_millis(500));
            let limit = case_timeout_s();
            if let Ok(a) = ACTIVITIES.lock() {
                if let Some(x) = a.iter().find(|x| x.since.elapsed().as_secs() >= limit) {
                    println!("INCONCLUSIVE: {} did not finish within {} s - possible livelock in the code under test", x.label, limit);
                    std::process::exit(2);
                }
            }
        });
    });
    let id = NEXT_ACTIVITY.fetch_add(1, std::sync::atomic::Ordering::SeqCst);
    if let Ok(mut a) = ACTIVITIES.lock() {
        a.push(Activity { id, since: Instant::now(), label });
    }
    ActivityGuard(id)
}

// ---------------------------------------------------------------------------------------------
// known findings

#[derive(Clone, Debug)]
pub struct Known {
    pub sig: String,
    pub text: String,
}

pub fn load_known(id: &str) -> Vec<Known> {
    let path = verif_dir().join("KNOWN_FINDINGS.txt");
    let mut v = Vec::new();
    if let Ok(s) = std::fs::read_to_string(path) {
        for line in s.lines() {
            let line = line.trim();
            if let Some(rest) = line.strip_prefix("finding:") {
                let rest = rest.trim();
                let mut it = rest.splitn(3, ' ');
                let p = it.next().unwrap_or("");
                let s = it.next().unwrap_or("");
                let text = it.next().unwrap_or("");
                if p == format!("property={}", id) {
                    if let Some(sig) = s.strip_prefix("sig=") {
                        v.push(Known { sig: sig.to_string(), text: text.to_string() });
                    }
                }
            }
        }
    }
    v
}

// ---------------------------------------------------------------------------------------------

pub struct Violation {
    pub sub: String,
    pub sig: String,
    pub msg: String,
    pub replay: PathBuf,
}

pub struct Run {
    pub id: String,
    pub tier: Tier,
    pub seed: u64,
    pub level: &'static str,
    start: Instant,
    pub ctx: Ctx,
    pub violations: Vec<Violation>,
    known: Vec<Known>,
    subs: Vec<Value>,
    exhaustive: Option<bool>,
    pub replayed: u64,
    pub extra: BTreeMap<String, Value>,
    /// C06 only (its statement forbids hangs): a generated case on which one thread burns more than
    /// `HANG_CPU_BUDGET_S` seconds of CPU time (thread CPU time from /proc, not wall clock; normal cases need
    /// microseconds) is reported as a violation (livelock) instead of "inconclusive"
    pub hang_is_violation: bool,
}

pub const HANG_CPU_BUDGET_S: u64 = 20;

/// CPU time (user + system, in clock ticks) consumed so far by the thread with this kernel tid
fn thread_cpu_ticks(tid: u64) -> Option<u64> {
    let stat = std::fs::read_to_string(format!("/proc/self/task/{}/stat", tid)).ok()?;
    // fields after the command name (which is in parentheses and may contain spaces)
    let rest = &stat[stat.rfind(')')? + 2..];
    let f: Vec<&str> = rest.split(' ').collect();
    // rest starts at field 3 (state); utime = field 14, stime = field 15
    let utime: u64 = f.get(11)?.parse().ok()?;
    let stime: u64 = f.get(12)?.parse().ok()?;
    Some(utime + stime)
}

fn own_tid() -> Option<u64> {
    let l = std::fs::read_link("/proc/thread-self").ok()?;
    l.file_name()?.to_str()?.parse().ok()
}

pub fn seed_from_env() -> u64 {
    std::env::var("VERIF_SEED").ok().and_then(|s| s.trim().parse::<i64>().ok()).map(|v| v as u64).unwrap_or(1)
}

pub fn workers() -> usize {
    std::env::var("VERIF_WORKERS").ok().and_then(|s| s.parse().ok()).unwrap_or(12)
}

impl Run {
    pub fn new(id: &str, tier: Tier, level: &'static str) -> Run {
        Run {
            id: id.to_string(),
            tier,
            seed: seed_from_env(),
            level,
            start: Instant::now(),
            ctx: Ctx::new(true),
            violations: Vec::new(),
            known: load_known(id),
            subs: Vec::new(),
            exhaustive: None,
            replayed: 0,
            extra: BTreeMap::new(),
            hang_is_violation: false,
        }
    }

    fn is_known(&self, sig: &str) -> Option<&Known> {
        self.known.iter().find(|k| k.sig == sig)
    }

    fn write_replay<C: Serialize>(&self, sub: &str, case: &C, f: &Failure) -> PathBuf {
        let dir = verif_dir().join("failures");
        let _ = std::fs::create_dir_all(&dir);
        let v = json!({
            "property": self.id,
            "sub": sub,
            "signature": f.sig,
            "message": f.msg,
            "seed": self.seed,
            "case": serde_json::to_value(case).unwrap_or(Value::Null),
        });
        let text = serde_json::to_string_pretty(&v).unwrap();
        let name = format!("{}-{}-{:016x}.json", self.id, sub, h64(&text));
        let path = dir.join(name);
        let _ = std::fs::write(&path, text);
        path
    }

    fn record_failure<C: Serialize>(&mut self, sub: &str, case: &C, f: Failure) {
        if let Some(k) = self.is_known(&f.sig) {
            let first = !self.ctx.known_hit.contains_key(&f.sig);
            if first {
                println!("KNOWN-FINDING: property={} {} [sig={}]", self.id, k.text, f.sig);
            }
            *self.ctx.known_hit.entry(f.sig.clone()).or_insert(0) += 1;
            return;
        }
        if self.violations.iter().any(|v| v.sig == f.sig && v.sub == sub) {
            return;
        }
        let replay = self.write_replay(sub, case, &f);
        println!("VIOLATION property={} replay={}", self.id, replay.display());
        println!("  sub-check: {}  signature: {}", sub, f.sig);
        println!("  {}", f.msg.replace('\n', "\n  "));
        self.violations.push(Violation { sub: sub.to_string(), sig: f.sig, msg: f.msg, replay });
    }

    /// Re-runs every committed regression file `replays/<ID>/*.json` whose "sub" equals `sub`.
    pub fn replays<P: Prop>(&mut self, sub: &str, p: &P) {
        let dir = verif_dir().join("replays").join(&self.id);
        let mut files: Vec<PathBuf> = match std::fs::read_dir(&dir) {
            Ok(rd) => rd.filter_map(|e| e.ok().map(|e| e.path())).filter(|p| p.extension().map_or(false, |e| e == "json")).collect(),
            Err(_) => return,
        };
        files.sort();
        for f in files {
            let _ = self.replay_file(sub, p, &f, false);
        }
    }

    /// returns Some(ok) if the file belonged to this sub-check
    pub fn replay_file<P: Prop>(&mut self, sub: &str, p: &P, file: &Path, verbose: bool) -> Option<bool> {
        let text = match std::fs::read_to_string(file) {
            Ok(t) => t,
            Err(e) => {
                eprintln!("cannot read replay {}: {}", file.display(), e);
                return None;
            }
        };
        let v: Value = match serde_json::from_str(&text) {
            Ok(v) => v,
            Err(e) => {
                eprintln!("bad replay {}: {}", file.display(), e);
                return None;
            }
        };
        if v.get("sub").and_then(|s| s.as_str()) != Some(sub) {
            return None;
        }
        let case: P::Case = match serde_json::from_value(v.get("case").cloned().unwrap_or(Value::Null)) {
            Ok(c) => c,
            Err(e) => {
                eprintln!("replay {} does not decode for sub-check {}: {}", file.display(), sub, e);
                return None;
            }
        };
        self.replayed += 1;
        let mut ctx = Ctx::new(false);
        ctx.counting = false;
        let _watch = activity(format!("replay file {} of {} ({})", file.display(), self.id, sub));
        {
            // (an absurd allocation request would abort the process: see alloc.rs)
            let (id2, sub2, file2) = (self.id.clone(), sub.to_string(), file.to_path_buf());
            crate::alloc::set_last_words(Some(Box::new(move |size: usize| {
                println!("VIOLATION property={} replay={}", id2, file2.display());
                println!("  sub-check: {}  signature: abort/absurd-allocation-request", sub2);
                println!("  the code under test requested a single allocation of {} bytes while handling this case: the process would be aborted", size);
                std::process::exit(1);
            })));
        }
        let r = guarded(|| p.check(&case, &mut ctx));
        crate::alloc::set_last_words(None);
        drop(_watch);
        match r {
            Ok(()) => {
                if verbose {
                    println!("replay {}: property held", file.display());
                }
                Some(true)
            }
            Err(f) => {
                if verbose {
                    println!("replay {}: FAILED [{}] {}", file.display(), f.sig, f.msg);
                }
                // the committed file itself is the replay
                if let Some(k) = self.is_known(&f.sig) {
                    if !self.ctx.known_hit.contains_key(&f.sig) {
                        println!("KNOWN-FINDING: property={} {} [sig={}]", self.id, k.text, f.sig);
                    }
                    *self.ctx.known_hit.entry(f.sig.clone()).or_insert(0) += 1;
                } else {
                    println!("VIOLATION property={} replay={}", self.id, file.display());
                    println!("  sub-check: {}  signature: {}", sub, f.sig);
                    println!("  {}", f.msg.replace('\n', "\n  "));
                    self.violations.push(Violation { sub: sub.into(), sig: f.sig, msg: f.msg, replay: file.to_path_buf() });
                }
                Some(false)
            }
        }
    }

    /// Generated search: `cases` cases spread over the worker threads, each with its own fixed seed.
    pub fn generated<P: Prop>(&mut self, sub: &str, p: &P, cases: u64) {
        let w = workers().max(1).min(cases.max(1) as usize);
        let per = (cases + w as u64 - 1) / w as u64;
        let tier = self.tier;
        let seed = self.seed;
        let id = self.id.clone();
        let known: Vec<String> = self.known.iter().map(|k| k.sig.clone()).collect();
        let t0 = Instant::now();
        // per-case watchdog: a case that runs for minutes (normal: microseconds) is a hang of the code under test or of
        // the harness. It cannot be interrupted, so the case is written out and the process ends with exit code 2
        // (inconclusive - a wall clock is never used as a violation signal).
        let limit_s: u64 = case_timeout_s();
        let current: Vec<std::sync::Arc<std::sync::Mutex<Option<(Instant, P::Case)>>>> = (0..w).map(|_| Default::default()).collect();
        let seqs: Vec<std::sync::Arc<std::sync::atomic::AtomicU64>> = (0..w).map(|_| Default::default()).collect();
        let tids: Vec<std::sync::Arc<std::sync::atomic::AtomicU64>> = (0..w).map(|_| Default::default()).collect();
        let hang_is_violation = self.hang_is_violation;
        let done = std::sync::atomic::AtomicUsize::new(0);
        let vdir = verif_dir();
        let results: Vec<(Ctx, Option<(P::Case, Failure)>)> = std::thread::scope(|s| {
            {
                let current = &current;
                let done = &done;
                let id = &id;
                let vdir = &vdir;
                let seqs = &seqs;
                let tids = &tids;
                s.spawn(move || {
                  // (case sequence number, thread cpu ticks when that case was first seen) per worker
                  let mut tracked: Vec<Option<(u64, u64)>> = vec![None; w];
                  let ticks_per_s = 100u64; // USER_HZ on Linux
                  loop {
                    if done.load(std::sync::atomic::Ordering::SeqCst) >= w {
                        return;
                    }
                    std::thread::sleep(std::time::Duration::from_millis(500));
                    if hang_is_violation {
                        for wi in 0..w {
                            let seq = seqs[wi].load(std::sync::atomic::Ordering::SeqCst);
                            let tid = tids[wi].load(std::sync::atomic::Ordering::SeqCst);
                            if seq == 0 || tid == 0 {
                                continue;
                            }
                            let cpu = match thread_cpu_ticks(tid) {
                                Some(c) => c,
                                None => continue,
                            };
                            match tracked[wi] {
                                Some((s0, c0)) if s0 == seq => {
                                    if cpu.saturating_sub(c0) >= HANG_CPU_BUDGET_S * ticks_per_s {
                                        let case = current[wi].lock().ok().and_then(|g| g.as_ref().map(|x| x.1.clone()));
                                        if let Some(case) = case {
                                            // still the same case?
                                            if seqs[wi].load(std::sync::atomic::Ordering::SeqCst) != seq {
                                                continue;
                                            }
                                            let dir = vdir.join("failures");
                                            let _ = std::fs::create_dir_all(&dir);
                                            let msg = format!("one generated case kept a thread busy for more than {} s of CPU time (normal cases need microseconds): the reader loops forever", HANG_CPU_BUDGET_S);
                                            let v = json!({"property": id, "sub": sub, "signature": "livelock/cpu-time-budget", "message": msg, "case": serde_json::to_value(&case).unwrap_or(Value::Null)});
                                            let text = serde_json::to_string_pretty(&v).unwrap_or_default();
                                            let path = dir.join(format!("{}-{}-livelock-{:016x}.json", id, sub, h64(&text)));
                                            let _ = std::fs::write(&path, text);
                                            println!("VIOLATION property={} replay={}", id, path.display());
                                            println!("  sub-check: {}  signature: livelock/cpu-time-budget", sub);
                                            println!("  {}", msg);
                                            std::process::exit(1);
                                        }
                                    }
                                }
                                _ => tracked[wi] = Some((seq, cpu)),
                            }
                        }
                    }
                    for slot in current.iter() {
                        let stuck = match slot.lock() {
                            Ok(g) => match &*g {
                                Some((t0, case)) if t0.elapsed().as_secs() >= limit_s => Some(case.clone()),
                                _ => None,
                            },
                            Err(_) => None,
                        };
                        if let Some(case) = stuck {
                            let dir = vdir.join("failures");
                            let _ = std::fs::create_dir_all(&dir);
                            let v = json!({"property": id, "sub": sub, "signature": "hang-watchdog", "message": format!("the case did not finish within {} s", limit_s), "case": serde_json::to_value(&case).unwrap_or(Value::Null)});
                            let text = serde_json::to_string_pretty(&v).unwrap_or_default();
                            let path = dir.join(format!("{}-{}-hang-{:016x}.json", id, sub, h64(&text)));
                            let _ = std::fs::write(&path, text);
                            println!("INCONCLUSIVE: a generated case of {} ({}) did not finish within {} s - possible livelock in the code under test; case written to {}", id, sub, limit_s, path.display());
                            std::process::exit(2);
                        }
                    }
                  }
                });
            }
            let handles: Vec<_> = (0..w)
                .map(|wi| {
                    let known = &known;
                    let id = &id;
                    let slot = current[wi].clone();
                    let seq = seqs[wi].clone();
                    let tidslot = tids[wi].clone();
                    let done = &done;
                    std::thread::Builder::new()
                        .stack_size(64 << 20)
                        .spawn_scoped(s, move || {
                            if let Some(t) = own_tid() {
                                tidslot.store(t, std::sync::atomic::Ordering::SeqCst);
                            }
                            // an allocation request of a terabyte would abort the process before any oracle runs:
                            // report the case that made it (the reader asked for it while handling a small input)
                            {
                                let (slot2, id2, sub2, vdir2) = (slot.clone(), id.to_string(), sub.to_string(), verif_dir());
                                crate::alloc::set_last_words(Some(Box::new(move |size: usize| {
                                    // (try_lock: this may run while the worker itself holds the slot)
                                    let case = slot2.try_lock().ok().and_then(|g| g.as_ref().map(|x| serde_json::to_value(&x.1).unwrap_or(Value::Null))).unwrap_or(Value::Null);
                                    let dir = vdir2.join("failures");
                                    let _ = std::fs::create_dir_all(&dir);
                                    let msg = format!("the code under test requested a single allocation of {} bytes while handling this case: the process would be aborted (memory allocation failure)", size);
                                    let v = json!({"property": id2, "sub": sub2, "signature": "abort/absurd-allocation-request", "message": msg, "case": case});
                                    let text = serde_json::to_string_pretty(&v).unwrap_or_default();
                                    let path = dir.join(format!("{}-{}-abort-{:016x}.json", id2, sub2, h64(&text)));
                                    let _ = std::fs::write(&path, text);
                                    println!("VIOLATION property={} replay={}", id2, path.display());
                                    println!("  sub-check: {}  signature: abort/absurd-allocation-request", sub2);
                                    println!("  {}", msg);
                                    std::process::exit(1);
                                })));
                            }
                            let wseed = h64(&(seed, id.as_str(), sub, wi as u64));
                            let mut seed_bytes = [0u8; 32];
                            for (i, chunk) in seed_bytes.chunks_mut(8).enumerate() {
                                chunk.copy_from_slice(&h64(&(wseed, i as u64)).to_le_bytes());
                            }
                            let _ = seed_bytes;
                            let config = Config {
                                cases: per as u32,
                                failure_persistence: None,
                                rng_algorithm: RngAlgorithm::ChaCha,
                                rng_seed: RngSeed::Fixed(wseed),
                                max_shrink_iters: 20_000,
                                max_global_rejects: 1_000_000,
                                verbose: 0,
                                ..Config::default()
                            };
                            let mut runner = TestRunner::new(config);
                            let strat = p.strategy(tier);
                            let ctx = RefCell::new(Ctx::new(wi == 0));
                            let res = runner.run(&strat, |case| {
                                let mut c = ctx.borrow_mut();
                                c.eval();
                                if let Ok(mut g) = slot.lock() {
                                    *g = Some((Instant::now(), case.clone()));
                                }
                                seq.fetch_add(1, std::sync::atomic::Ordering::SeqCst);
                                let r = guarded(|| p.check(&case, &mut c));
                                if let Ok(mut g) = slot.lock() {
                                    *g = None;
                                }
                                match r {
                                    Ok(()) => Ok(()),
                                    Err(f) => {
                                        if known.iter().any(|k| *k == f.sig) {
                                            *c.known_hit.entry(f.sig.clone()).or_insert(0) += 1;
                                            Ok(())
                                        } else {
                                            c.counting = false;
                                            Err(TestCaseError::fail(f.sig))
                                        }
                                    }
                                }
                            });
                            let mut ctx = ctx.into_inner();
                            let fail = match res {
                                Ok(()) => None,
                                Err(TestError::Fail(_, mut case)) => {
                                    ctx.counting = false;
                                    let mut scratch = Ctx::new(false);
                                    scratch.counting = false;
                                    let mut f = match guarded(|| p.check(&case, &mut scratch)) {
                                        Err(f) => f,
                                        Ok(()) => Failure::new("non-reproducible", "minimal case passed when re-run (flaky oracle?)"),
                                    };
                                    if f.sig != "non-reproducible" {
                                        minimise_bytes(p, &mut case, &f.sig);
                                        if let Err(f2) = guarded(|| p.check(&case, &mut scratch)) {
                                            if f2.sig == f.sig {
                                                f = f2;
                                            }
                                        }
                                    }
                                    Some((case, f))
                                }
                                Err(TestError::Abort(r)) => {
                                    eprintln!("proptest aborted in {}: {}", sub, r);
                                    None
                                }
                            };
                            done.fetch_add(1, std::sync::atomic::Ordering::SeqCst);
                            (ctx, fail)
                        })
                        .unwrap()
                })
                .collect();
            handles.into_iter().map(|h| h.join().expect("worker thread died")).collect()
        });
        let mut evals = 0;
        let mut nt_before = self.ctx.nontrivial.len();
        for (ctx, fail) in results {
            evals += ctx.evaluations;
            // print KNOWN-FINDING lines for signatures first seen now
            for sig in ctx.known_hit.keys() {
                if !self.ctx.known_hit.contains_key(sig) {
                    if let Some(k) = self.is_known(sig) {
                        println!("KNOWN-FINDING: property={} {} [sig={}]", self.id, k.text, sig);
                    }
                }
            }
            self.ctx.merge(ctx);
            if let Some((case, f)) = fail {
                self.record_failure(sub, &case, f);
            }
        }
        nt_before = self.ctx.nontrivial.len() - nt_before;
        self.subs.push(json!({"sub": sub, "kind": "generated (proptest)", "cases": evals, "new_distinct_nontrivial": nt_before,
            "wall_s": t0.elapsed().as_secs_f64()}));
    }

    /// Deterministic complete enumeration of a finite sub-space. The closure receives the shared
    /// counters and returns the first failure (with its case rendered as JSON).
    pub fn exhaustive<F>(&mut self, sub: &str, space: &str, f: F)
    where
        F: FnOnce(&mut Ctx) -> Result<(), (Value, Failure)>,
    {
        let t0 = Instant::now();
        let before = self.ctx.evaluations;
        // (sequential enumerations are bounded in time by construction; they get a generous multiple of the case limit)
        let r = f(&mut self.ctx);
        let complete = r.is_ok();
        if let Err((case, fl)) = r {
            self.record_failure(sub, &case, fl);
        }
        if self.exhaustive.is_none() {
            self.exhaustive = Some(complete);
        } else if !complete {
            self.exhaustive = Some(false);
        }
        self.subs.push(json!({"sub": sub, "kind": "exhaustive enumeration", "space": space, "complete": complete,
            "cases": self.ctx.evaluations - before, "wall_s": t0.elapsed().as_secs_f64()}));
    }

    /// Parallel exhaustive enumeration: the index space 0..n is split over the workers.
    pub fn exhaustive_par<F>(&mut self, sub: &str, space: &str, n: u64, f: F)
    where
        F: Fn(u64, &mut Ctx) -> Result<(), (Value, Failure)> + Sync,
    {
        let t0 = Instant::now();
        let w = workers().max(1);
        let results: Vec<(Ctx, Option<(Value, Failure)>)> = std::thread::scope(|s| {
            let hs: Vec<_> = (0..w)
                .map(|wi| {
                    let f = &f;
                    std::thread::Builder::new()
                        .stack_size(64 << 20)
                        .spawn_scoped(s, move || {
                            let mut ctx = Ctx::new(wi == 0);
                            let mut i = wi as u64;
                            let mut fail = None;
                            let mut watch = activity(format!("enumeration {} from index {}", sub, i));
                            let mut in_block = 0u32;
                            while i < n {
                                if let Err(e) = f(i, &mut ctx) {
                                    fail = Some(e);
                                    break;
                                }
                                i += w as u64;
                                in_block += 1;
                                if in_block == 2048 {
                                    in_block = 0;
                                    drop(watch);
                                    watch = activity(format!("enumeration {} from index {}", sub, i));
                                }
                            }
                            drop(watch);
                            (ctx, fail)
                        })
                        .unwrap()
                })
                .collect();
            hs.into_iter().map(|h| h.join().expect("worker died")).collect()
        });
        let mut complete = true;
        let mut evals = 0;
        for (ctx, fail) in results {
            evals += ctx.evaluations;
            self.ctx.merge(ctx);
            if let Some((case, fl)) = fail {
                complete = false;
                self.record_failure(sub, &case, fl);
            }
        }
        if self.exhaustive.is_none() {
            self.exhaustive = Some(complete);
        } else if !complete {
            self.exhaustive = Some(false);
        }
        self.subs.push(json!({"sub": sub, "kind": "exhaustive enumeration", "space": space, "complete": complete,
            "cases": evals, "wall_s": t0.elapsed().as_secs_f64()}));
    }

    pub fn finish(mut self, rule: &str, assumptions: &[&str]) -> i32 {
        let wall = self.start.elapsed().as_secs_f64();
        let mut samples = std::mem::take(&mut self.ctx.samples);
        samples.truncate(10);
        if samples.is_empty() {
            samples.push(json!("(no non-trivial case was generated in this run)"));
        }
        let mut coverage = json!({
            "evaluations": self.ctx.evaluations,
            "distinct_nontrivial": self.ctx.nontrivial.len(),
            "rule": rule,
            "samples": samples,
            "classes": self.ctx.classes,
            "sub_checks": self.subs,
            "replay_files_rerun": self.replayed,
            "known_findings_hit": self.ctx.known_hit,
        });
        if let Some(e) = self.exhaustive {
            coverage["exhaustive_subspace_complete"] = json!(e);
        }
        for (k, v) in &self.extra {
            coverage[k] = v.clone();
        }
        let ev = json!({
            "property_id": self.id,
            "tier": self.tier.name(),
            "seed": self.seed as i64,
            "level": self.level,
            "coverage": coverage,
            "assumptions": assumptions,
            "wall_s": wall,
            "violations": self.violations.len(),
        });
        let dir = verif_dir().join("evidence");
        let _ = std::fs::create_dir_all(&dir);
        // (SEQIO_EVIDENCE_NAME: a complementary pass writes its evidence beside the main file; check.sh merges the two)
        let name = std::env::var("SEQIO_EVIDENCE_NAME").unwrap_or_else(|_| self.id.clone());
        let path = dir.join(format!("{}.json", name));
        std::fs::write(&path, serde_json::to_string_pretty(&ev).unwrap()).expect("cannot write evidence");
        println!(
            "{} {}: {} evaluations, {} distinct non-trivial, {} violation(s), {} known finding(s) hit, {:.1}s",
            self.id,
            self.tier.name(),
            self.ctx.evaluations,
            self.ctx.nontrivial.len(),
            self.violations.len(),
            self.ctx.known_hit.len(),
            wall
        );
        if self.violations.is_empty() {
            0
        } else {
            1
        }
    }
}

/// helper: boxed strategy
pub fn boxed<S: Strategy + 'static>(s: S) -> BoxedStrategy<S::Value> {
    s.boxed()
}
