//! Counting global allocator with a thread-local measurement window (C18).

use std::alloc::{GlobalAlloc, Layout, System};
use std::cell::Cell;

pub struct Counting;

thread_local! {
    static WINDOW: Cell<bool> = const { Cell::new(false) };
    static COUNT: Cell<u64> = const { Cell::new(0) };
    static BYTES: Cell<u64> = const { Cell::new(0) };
}

#[inline]
fn note(size: usize) {
    // try_with: never panic inside the allocator (TLS may be gone during thread teardown)
    let _ = WINDOW.try_with(|w| {
        if w.get() {
            let _ = COUNT.try_with(|c| c.set(c.get() + 1));
            let _ = BYTES.try_with(|b| b.set(b.get() + size as u64));
        }
    });
}

unsafe impl GlobalAlloc for Counting {
    unsafe fn alloc(&self, layout: Layout) -> *mut u8 {
        note(layout.size());
        System.alloc(layout)
    }
    unsafe fn dealloc(&self, ptr: *mut u8, layout: Layout) {
        System.dealloc(ptr, layout)
    }
    unsafe fn alloc_zeroed(&self, layout: Layout) -> *mut u8 {
        note(layout.size());
        System.alloc_zeroed(layout)
    }
    unsafe fn realloc(&self, ptr: *mut u8, layout: Layout, new_size: usize) -> *mut u8 {
        note(new_size);
        System.realloc(ptr, layout, new_size)
    }
}

/// Runs `f` with the window open on this thread and returns (result, allocations, bytes).
#[inline]
pub fn measured<T, F: FnOnce() -> T>(f: F) -> (T, u64, u64) {
    COUNT.with(|c| c.set(0));
    BYTES.with(|b| b.set(0));
    WINDOW.with(|w| w.set(true));
    let r = f();
    WINDOW.with(|w| w.set(false));
    (r, COUNT.with(|c| c.get()), BYTES.with(|b| b.get()))
}
