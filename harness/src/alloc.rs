//! Counting global allocator with a thread-local measurement window (C18).

use std::alloc::{GlobalAlloc, Layout, System};
use std::cell::Cell;

pub struct Counting;

/// A single allocation request of this size (64 GiB, more than the machine has; the largest legitimate request of the
/// harness and of the readers under the guarded policies is a few GiB) would abort the process
/// (`handle_alloc_error`), which no oracle could report. The thread's "last words" are run instead.
pub const ABSURD_REQUEST: usize = 1 << 36;

thread_local! {
    /// What to do when the code under test asks for an absurd amount of memory on this thread: the engine installs a
    /// closure that writes the current case out as a violation and ends the process with exit code 1.
    static LAST_WORDS: std::cell::RefCell<Option<Box<dyn Fn(usize)>>> = const { std::cell::RefCell::new(None) };
}

pub fn set_last_words(f: Option<Box<dyn Fn(usize)>>) {
    let _ = LAST_WORDS.try_with(|w| *w.borrow_mut() = f);
}

#[cold]
fn absurd(size: usize) {
    // take the closure out first: whatever it allocates is ordinary, and a second absurd request cannot recurse
    let f = LAST_WORDS.try_with(|w| w.try_borrow_mut().ok().and_then(|mut g| g.take())).ok().flatten();
    if let Some(f) = f {
        f(size);
    }
}

thread_local! {
    static WINDOW: Cell<bool> = const { Cell::new(false) };
    static COUNT: Cell<u64> = const { Cell::new(0) };
    static BYTES: Cell<u64> = const { Cell::new(0) };
}

#[inline]
fn note(size: usize) {
    // try_with: never panic inside the allocator (TLS may be gone during thread teardown)
    let _ = WINDOW.try_with(|w| {
        if w.get() {
            let _ = COUNT.try_with(|c| c.set(c.get() + 1));
            let _ = BYTES.try_with(|b| b.set(b.get() + size as u64));
        }
    });
}

unsafe impl GlobalAlloc for Counting {
    unsafe fn alloc(&self, layout: Layout) -> *mut u8 {
        note(layout.size());
        if layout.size() >= ABSURD_REQUEST {
            absurd(layout.size());
        }
        System.alloc(layout)
    }
    unsafe fn dealloc(&self, ptr: *mut u8, layout: Layout) {
        System.dealloc(ptr, layout)
    }
    unsafe fn alloc_zeroed(&self, layout: Layout) -> *mut u8 {
        note(layout.size());
        if layout.size() >= ABSURD_REQUEST {
            absurd(layout.size());
        }
        System.alloc_zeroed(layout)
    }
    unsafe fn realloc(&self, ptr: *mut u8, layout: Layout, new_size: usize) -> *mut u8 {
        note(new_size);
        if new_size >= ABSURD_REQUEST {
            absurd(new_size);
        }
        System.realloc(ptr, layout, new_size)
    }
}

/// Runs `f` with the window open on this thread and returns (result, allocations, bytes).
#[inline]
pub fn measured<T, F: FnOnce() -> T>(f: F) -> (T, u64, u64) {
    COUNT.with(|c| c.set(0));
    BYTES.with(|b| b.set(0));
    WINDOW.with(|w| w.set(true));
    let r = f();
    WINDOW.with(|w| w.set(false));
    (r, COUNT.with(|c| c.get()), BYTES.with(|b| b.get()))
}
