//! Decoding of fuzzer bytes into structured cases (shared by the libFuzzer targets and by
//! `seqio_verif decode-artifact`, which turns a libFuzzer artifact into a replay JSON file).

use crate::gen::Cfg;
use crate::interp::Op;
use crate::light::Mode;
use crate::model::Format;
use crate::policy::PolKind;
use crate::props::{c01, c03, c06};
use crate::source::{Script, ALL_EK};
use crate::util::B;

struct U<'a> {
    d: &'a [u8],
    i: usize,
}

impl<'a> U<'a> {
    fn u8(&mut self) -> u8 {
        let b = self.d.get(self.i).copied().unwrap_or(0);
        self.i += 1;
        b
    }
    fn rest(&self) -> &'a [u8] {
        if self.i <= self.d.len() {
            &self.d[self.i..]
        } else {
            &[]
        }
    }
}

fn cap(u: &mut U) -> usize {
    let a = u.u8();
    let b = u.u8();
    if a < 200 {
        3 + (a as usize % 30)
    } else {
        3 + (b as usize) + ((a as usize - 200) << 2)
    }
}

fn policy(sel: u8, arg: u8, permissive: bool) -> PolKind {
    let n = if permissive { 4 } else { 7 };
    match sel % n {
        0 => PolKind::Std,
        1 => PolKind::DoubleUntil(1 + arg as u32 % 64),
        2 => PolKind::Add(1 + arg as u16 % 8),
        3 => PolKind::DoubleUntilLimited(1 + arg as u32 % 64, 1 << 30),
        4 => PolKind::RefuseAbove(3 + arg as u32 % 120),
        5 => PolKind::RefuseAlways,
        _ => PolKind::DoubleUntilLimited(1 + (arg as u32 >> 4), 3 + arg as u32 % 120),
    }
}

fn script(u: &mut U, faults: bool) -> Script {
    let sel = u.u8();
    let (a, b, c) = (u.u8(), u.u8(), u.u8());
    let chunks: Vec<u16> = match sel % 6 {
        0 => vec![],
        1 => vec![1],
        2 => vec![2],
        3 => vec![3],
        4 => vec![1 + a as u16 % 8, 1 + b as u16 % 40],
        _ => vec![1 + a as u16 % 5, b as u16 % 20, 1 + c as u16 % 40],
    };
    let isel = u.u8();
    let (i0, i1) = (u.u8(), u.u8());
    let interrupts: Vec<u16> = match isel % 4 {
        0 | 1 => vec![],
        2 => vec![i0 as u16 % 60, i1 as u16 % 60],
        _ => {
            let s = i0 as u16 % 40;
            (s..s + 1 + i1 as u16 % 30).collect()
        }
    };
    let fsel = u.u8();
    let (fk, fe) = (u.u8(), u.u8());
    let fault = if faults && fsel % 3 != 0 { Some((fk as u32 % 60, ALL_EK[fe as usize % ALL_EK.len()])) } else { None };
    Script { chunks, interrupts, fault, sticky: faults && fsel >= 192, payload: if fk >= 200 { fe % 5 } else { 0 } }
}

fn format(b: u8) -> Format {
    // SEQIO_FUZZ_FORMAT=fasta|fastq pins the format (so a campaign for C01 does not spend half its runs on FASTQ)
    static FORCED: std::sync::OnceLock<Option<Format>> = std::sync::OnceLock::new();
    let forced = FORCED.get_or_init(|| match std::env::var("SEQIO_FUZZ_FORMAT").ok().as_deref() {
        Some("fasta") => Some(Format::Fasta),
        Some("fastq") => Some(Format::Fastq),
        _ => None,
    });
    if let Some(f) = forced {
        return *f;
    }
    if b & 1 == 0 {
        Format::Fasta
    } else {
        Format::Fastq
    }
}

pub fn decode_read(data: &[u8]) -> (Format, c01::Case) {
    let mut u = U { d: data, i: 0 };
    let f = format(u.u8());
    let cap = cap(&mut u);
    let pol = policy(u.u8(), u.u8(), true);
    let script = script(&mut u, false);
    let mode = match u.u8() % 5 {
        0..=2 => Mode::Next,
        3 => Mode::Records,
        _ => Mode::IntoRecords,
    };
    (f, c01::Case { input: B::new(u.rest()), cfg: Cfg { cap, policy: pol, script }, mode })
}

pub fn decode_diff(data: &[u8]) -> c03::Case {
    let mut u = U { d: data, i: 0 };
    let f = format(u.u8());
    let cap_a = cap(&mut u);
    let pol_a = policy(u.u8(), u.u8(), true);
    let script_a = script(&mut u, false);
    let cap_b = cap(&mut u);
    let pol_b = policy(u.u8(), u.u8(), true);
    let script_b = script(&mut u, false);
    let mode = match u.u8() % 5 {
        0 | 1 => Mode::Next,
        2 | 3 => Mode::Sets,
        _ => Mode::Records,
    };
    c03::Case {
        format: f,
        input: B::new(u.rest()),
        a: Cfg { cap: cap_a, policy: pol_a, script: script_a },
        b: Cfg { cap: cap_b, policy: pol_b, script: script_b },
        mode,
    }
}

pub fn decode_total(data: &[u8]) -> c06::Case {
    let mut u = U { d: data, i: 0 };
    let f = format(u.u8());
    let cap = cap(&mut u);
    let pol = policy(u.u8(), u.u8(), false);
    let script = script(&mut u, true);
    let n_ops = u.u8() as usize % 20;
    let mut ops = Vec::with_capacity(n_ops);
    for _ in 0..n_ops {
        let (o, a, b) = (u.u8(), u.u8(), u.u8());
        ops.push(match o % 12 {
            0..=3 => Op::Next,
            4 => Op::Owned,
            5 | 6 => Op::ReadSet(a % 3),
            7 | 8 => Op::ReadExact(a % 3, if b >= 250 { b } else { 1 + b % 8 }),
            9 => Op::Seek(((a as u16) << 8) | b as u16),
            10 => {
                if b >= 200 {
                    Op::ShrinkSet(a % 3)
                } else {
                    Op::SetPolicy(policy(a, b, false))
                }
            }
            _ => {
                if a < 40 {
                    Op::IntoRecords
                } else {
                    Op::SeekSeen(((a as u16) << 8) | b as u16)
                }
            }
        });
    }
    c06::Case { format: f, input: B::new(u.rest()), cap, policy: pol, script, ops }
}

/// Runs the oracle of the named target on raw fuzzer bytes.
pub fn run_target(target: &str, data: &[u8]) -> crate::engine::CheckResult {
    use crate::engine::{Ctx, Prop};
    let mut ctx = Ctx::new(false);
    ctx.counting = false;
    match target {
        "fuzz_read" => {
            let (f, c) = decode_read(data);
            c01::ReadModel(f).check(&c, &mut ctx)
        }
        "fuzz_config_diff" => c03::ConfigDiff.check(&decode_diff(data), &mut ctx),
        "fuzz_total" => c06::check_case(&decode_total(data), &mut ctx),
        _ => Err(crate::engine::Failure::new("harness/unknown-target", target.to_string())),
    }
}

/// (property id, sub-check, case as JSON) for a raw artifact of the named target
pub fn artifact_to_case(target: &str, data: &[u8]) -> Option<(&'static str, &'static str, serde_json::Value)> {
    match target {
        "fuzz_read" => {
            let (f, c) = decode_read(data);
            Some((if f == Format::Fasta { "C01" } else { "C02" }, "model-differential", serde_json::to_value(&c).ok()?))
        }
        "fuzz_config_diff" => Some(("C03", "config-differential", serde_json::to_value(&decode_diff(data)).ok()?)),
        "fuzz_total" => Some(("C06", "total-genuine", serde_json::to_value(&decode_total(data)).ok()?)),
        _ => None,
    }
}
