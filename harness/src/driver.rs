//! Uniform wrapper around the two readers (normalised outputs), so one interpreter serves both formats.

use crate::model::{Format, NErr, NRec};
use crate::policy::RecPolicy;
use crate::util::{lossy, B};
use seq_io::{fasta, fastq};
use std::io::{Read, Seek};

#[derive(Clone, Debug, PartialEq, Eq, Hash)]
pub enum Out {
    Rec(NRec),
    Err(NErr),
    End,
}

#[derive(Clone, Debug, PartialEq, Eq, Hash)]
pub enum SetOut {
    Ok,
    Err(NErr),
    End,
}

/// `Error::Io` must expose the original error as its `source()` (C14: the original error is preserved)
fn io_name(kind: std::io::ErrorKind, err: &dyn std::error::Error) -> String {
    match err.source().and_then(|s| s.downcast_ref::<std::io::Error>()) {
        Some(inner) if inner.kind() == kind => format!("{:?}", kind),
        Some(inner) => format!("{:?} (but source() has kind {:?})", kind, inner.kind()),
        None => format!("{:?} (but source() is None)", kind),
    }
}

pub fn fa_err(e: &fasta::Error) -> NErr {
    match e {
        fasta::Error::Io(io) => NErr::Io(io_name(io.kind(), e)),
        fasta::Error::InvalidStart { line, found } => NErr::InvalidStart { line: *line as u64, found: *found, id: None },
        fasta::Error::BufferLimit => NErr::BufferLimit,
    }
}

pub fn fq_err(e: &fastq::Error) -> NErr {
    match e {
        fastq::Error::Io(io) => NErr::Io(io_name(io.kind(), e)),
        fastq::Error::UnequalLengths { seq, qual, pos } => {
            NErr::UnequalLengths { line: pos.line, seq: *seq, qual: *qual, id: pos.id.clone() }
        }
        fastq::Error::InvalidStart { found, pos } => NErr::InvalidStart { line: pos.line, found: *found, id: pos.id.clone() },
        fastq::Error::InvalidSep { found, pos } => NErr::InvalidSep { line: pos.line, found: *found, id: pos.id.clone() },
        fastq::Error::UnexpectedEnd { pos } => NErr::UnexpectedEnd { line: pos.line, id: pos.id.clone() },
        fastq::Error::BufferLimit => NErr::BufferLimit,
    }
}

/// Touches every accessor of a FASTA record (slicing is where inconsistent offsets panic) and
/// returns the normalised record.
pub fn fa_norm(r: &fasta::RefRecord) -> NRec {
    use fasta::Record;
    let head = B::new(r.head());
    let lines: Vec<B> = r.seq_lines().map(B::new).collect();
    let _ = r.seq();
    let _ = r.num_seq_lines();
    let _ = r.full_seq();
    let _ = r.id_bytes();
    let _ = r.desc_bytes();
    let _ = r.seq_lines().rev().count();
    NRec { head, lines, qual: None }
}

pub fn fq_norm(r: &fastq::RefRecord) -> NRec {
    use fastq::Record;
    let _ = r.id_bytes();
    let _ = r.desc_bytes();
    NRec { head: B::new(r.head()), lines: vec![B::new(r.seq())], qual: Some(B::new(r.qual())) }
}

pub fn fa_owned_norm(r: &fasta::OwnedRecord) -> NRec {
    // an owned FASTA record has lost its line structure
    NRec { head: B::new(&r.head), lines: vec![B::new(&r.seq)], qual: None }
}

pub fn fq_owned_norm(r: &fastq::OwnedRecord) -> NRec {
    NRec { head: B::new(&r.head), lines: vec![B::new(&r.seq)], qual: Some(B::new(&r.qual)) }
}

/// concatenated sequence, the view in which owned and borrowed FASTA records are comparable
pub fn flat(r: &NRec) -> NRec {
    let mut s = Vec::new();
    for l in &r.lines {
        s.extend_from_slice(l);
    }
    NRec { head: r.head.clone(), lines: vec![B(s)], qual: r.qual.clone() }
}

pub trait Rdr: Sized {
    type Src: Read;
    type Set: Default + Clone;
    const FORMAT: Format;
    fn open(src: Self::Src, cap: usize, pol: RecPolicy) -> Self;
    fn next_rec(&mut self) -> Out;
    /// one step of the borrowed owned-record iterator `records()`; the record comes back flattened
    fn next_owned(&mut self) -> Out;
    fn read_set(&mut self, set: &mut Self::Set, n: Option<usize>) -> SetOut;
    fn set_recs(set: &Self::Set) -> Vec<NRec>;
    fn set_len(set: &Self::Set) -> usize;
    fn set_buf_capacity(set: &Self::Set) -> usize;
    fn set_is_empty(set: &Self::Set) -> bool;
    fn set_shrink(set: &mut Self::Set);
    /// the policy currently installed, through the `policy()` accessor
    fn policy_kind(&self) -> crate::policy::PolKind;
    /// (line, byte)
    fn pos(&self) -> Option<(u64, u64)>;
    fn set_policy(&mut self, pol: RecPolicy);
    /// consume the reader through `into_records()`: all items up to and including `extra` items after
    /// the first `None`
    fn drain_into_records(self, max_items: usize, extra: usize) -> Vec<Out>;
    fn last_display(&self) -> Option<&str>;
}

pub trait SeekRdr: Rdr {
    fn seek_to(&mut self, line: u64, byte: u64) -> Result<(), NErr>;
}

pub struct FaRdr<S: Read> {
    r: Option<fasta::Reader<S, RecPolicy>>,
    disp: Option<String>,
}

pub struct FqRdr<S: Read> {
    r: Option<fastq::Reader<S, RecPolicy>>,
    disp: Option<String>,
}

impl<S: Read> Rdr for FaRdr<S> {
    type Src = S;
    type Set = fasta::RecordSet;
    const FORMAT: Format = Format::Fasta;

    fn open(src: S, cap: usize, pol: RecPolicy) -> Self {
        FaRdr { r: Some(fasta::Reader::with_capacity(src, cap).set_policy(pol)), disp: None }
    }
    fn next_rec(&mut self) -> Out {
        match self.r.as_mut().unwrap().next() {
            None => Out::End,
            Some(Ok(r)) => Out::Rec(fa_norm(&r)),
            Some(Err(e)) => {
                self.disp = Some(e.to_string());
                Out::Err(fa_err(&e))
            }
        }
    }
    fn next_owned(&mut self) -> Out {
        match self.r.as_mut().unwrap().records().next() {
            None => Out::End,
            Some(Ok(r)) => Out::Rec(fa_owned_norm(&r)),
            Some(Err(e)) => {
                self.disp = Some(e.to_string());
                Out::Err(fa_err(&e))
            }
        }
    }
    fn read_set(&mut self, set: &mut Self::Set, n: Option<usize>) -> SetOut {
        let rdr = self.r.as_mut().unwrap();
        let res = match n {
            None => rdr.read_record_set(set),
            Some(n) => rdr.read_record_set_exact(set, Some(n)),
        };
        match res {
            None => SetOut::End,
            Some(Ok(())) => SetOut::Ok,
            Some(Err(e)) => {
                self.disp = Some(e.to_string());
                SetOut::Err(fa_err(&e))
            }
        }
    }
    fn set_recs(set: &Self::Set) -> Vec<NRec> {
        set.into_iter().map(|r| fa_norm(&r)).collect()
    }
    fn set_len(set: &Self::Set) -> usize {
        set.len()
    }
    fn set_buf_capacity(set: &Self::Set) -> usize {
        set.buf_capacity()
    }
    fn set_is_empty(set: &Self::Set) -> bool {
        set.is_empty()
    }
    fn set_shrink(set: &mut Self::Set) {
        set.shrink_buffer_to_fit()
    }
    fn policy_kind(&self) -> crate::policy::PolKind {
        self.r.as_ref().unwrap().policy().kind
    }
    fn pos(&self) -> Option<(u64, u64)> {
        self.r.as_ref().unwrap().position().map(|p| (p.line(), p.byte()))
    }
    fn set_policy(&mut self, pol: RecPolicy) {
        let r = self.r.take().unwrap();
        self.r = Some(r.set_policy(pol));
    }
    fn drain_into_records(mut self, max_items: usize, extra: usize) -> Vec<Out> {
        let mut it = self.r.take().unwrap().into_records();
        let mut out = Vec::new();
        let mut after_end = 0;
        while out.len() < max_items {
            let o = match it.next() {
                None => Out::End,
                Some(Ok(r)) => Out::Rec(fa_owned_norm(&r)),
                Some(Err(e)) => Out::Err(fa_err(&e)),
            };
            let is_end = o == Out::End;
            out.push(o);
            if is_end || after_end > 0 {
                after_end += 1;
                if after_end > extra {
                    break;
                }
            }
        }
        out
    }
    fn last_display(&self) -> Option<&str> {
        self.disp.as_deref()
    }
}

impl<S: Read + Seek> SeekRdr for FaRdr<S> {
    fn seek_to(&mut self, line: u64, byte: u64) -> Result<(), NErr> {
        self.r.as_mut().unwrap().seek(&fasta::Position::new(line, byte)).map_err(|e| fa_err(&e))
    }
}

impl<S: Read> Rdr for FqRdr<S> {
    type Src = S;
    type Set = fastq::RecordSet;
    const FORMAT: Format = Format::Fastq;

    fn open(src: S, cap: usize, pol: RecPolicy) -> Self {
        FqRdr { r: Some(fastq::Reader::with_capacity(src, cap).set_policy(pol)), disp: None }
    }
    fn next_rec(&mut self) -> Out {
        match self.r.as_mut().unwrap().next() {
            None => Out::End,
            Some(Ok(r)) => Out::Rec(fq_norm(&r)),
            Some(Err(e)) => {
                self.disp = Some(e.to_string());
                Out::Err(fq_err(&e))
            }
        }
    }
    fn next_owned(&mut self) -> Out {
        match self.r.as_mut().unwrap().records().next() {
            None => Out::End,
            Some(Ok(r)) => Out::Rec(fq_owned_norm(&r)),
            Some(Err(e)) => {
                self.disp = Some(e.to_string());
                Out::Err(fq_err(&e))
            }
        }
    }
    fn read_set(&mut self, set: &mut Self::Set, n: Option<usize>) -> SetOut {
        let rdr = self.r.as_mut().unwrap();
        let res = match n {
            None => rdr.read_record_set(set),
            Some(n) => rdr.read_record_set_exact(set, Some(n)),
        };
        match res {
            None => SetOut::End,
            Some(Ok(())) => SetOut::Ok,
            Some(Err(e)) => {
                self.disp = Some(e.to_string());
                SetOut::Err(fq_err(&e))
            }
        }
    }
    fn set_recs(set: &Self::Set) -> Vec<NRec> {
        set.into_iter().map(|r| fq_norm(&r)).collect()
    }
    fn set_len(set: &Self::Set) -> usize {
        set.len()
    }
    fn set_buf_capacity(set: &Self::Set) -> usize {
        set.buf_capacity()
    }
    fn set_is_empty(set: &Self::Set) -> bool {
        set.is_empty()
    }
    fn set_shrink(set: &mut Self::Set) {
        set.shrink_buffer_to_fit()
    }
    fn policy_kind(&self) -> crate::policy::PolKind {
        self.r.as_ref().unwrap().policy().kind
    }
    fn pos(&self) -> Option<(u64, u64)> {
        let p = self.r.as_ref().unwrap().position();
        Some((p.line(), p.byte()))
    }
    fn set_policy(&mut self, pol: RecPolicy) {
        let r = self.r.take().unwrap();
        self.r = Some(r.set_policy(pol));
    }
    fn drain_into_records(mut self, max_items: usize, extra: usize) -> Vec<Out> {
        let mut it = self.r.take().unwrap().into_records();
        let mut out = Vec::new();
        let mut after_end = 0;
        while out.len() < max_items {
            let o = match it.next() {
                None => Out::End,
                Some(Ok(r)) => Out::Rec(fq_owned_norm(&r)),
                Some(Err(e)) => Out::Err(fq_err(&e)),
            };
            let is_end = o == Out::End;
            out.push(o);
            if is_end || after_end > 0 {
                after_end += 1;
                if after_end > extra {
                    break;
                }
            }
        }
        out
    }
    fn last_display(&self) -> Option<&str> {
        self.disp.as_deref()
    }
}

impl<S: Read + Seek> SeekRdr for FqRdr<S> {
    fn seek_to(&mut self, line: u64, byte: u64) -> Result<(), NErr> {
        self.r.as_mut().unwrap().seek(&fastq::Position::new(line, byte)).map_err(|e| fq_err(&e))
    }
}

pub fn id_of(head: &[u8]) -> String {
    lossy(head.split(|&b| b == b' ').next().unwrap())
}
