//! Operation interpreter (runs an op list against a real reader, producing a trace) and the two
//! trace checkers: the strict cursor model (C04/C05/C09/C14) and the lenient "genuine records"
//! validity predicate (C06). DESIGN.md §3.5.

use crate::driver::{flat, FaRdr, FqRdr, Out, SeekRdr, SetOut};
use crate::engine::{CheckResult, Failure};
use crate::model::{Format, Model, NErr, NRec, Terminal};
use crate::policy::{PolKind, PolLog, RecPolicy, Shared};
use crate::source::{CallKind, Script, SharedLog, Source};
use crate::util::idx;
use crate::{ensure, fail};
use serde_derive::{Deserialize, Serialize};
use std::rc::Rc;

#[derive(Clone, Debug, PartialEq, Eq, Hash, Serialize, Deserialize)]
pub enum Op {
    Next,
    /// one step of `records()`
    Owned,
    ReadSet(u8),
    ReadExact(u8, u8),
    /// seek to the model position of record `idx(i, targets)`
    Seek(u16),
    /// seek to a position the reader itself reported earlier
    SeekSeen(u16),
    SetPolicy(PolKind),
    /// consume the reader through `into_records()`; ends the history
    IntoRecords,
    /// `shrink_buffer_to_fit()` on a record set: must not change what the set holds
    ShrinkSet(u8),
    /// `slots[dst] = slots[src].clone()`: the copy holds what the original holds
    CloneSet(u8, u8),
    /// `slots[dst].clone_from(&copy of slots[src])`: the allocation-reusing variant of Clone, into a set that may
    /// have held more (or fewer) records before
    CloneFromSet(u8, u8),
}

#[derive(Clone, Debug, PartialEq, Eq)]
pub enum Ev {
    Rec(Out),
    OwnedRec(Out),
    Set { slot: usize, n: Option<usize>, res: SetOut },
    Seek { line: u64, byte: u64, target: Option<usize>, res: Result<(), NErr>, real: bool },
    SeekSkipped,
    Policy,
    Drained(Vec<Out>),
    Cloned { src: usize, dst: usize },
}

#[derive(Clone, Debug, PartialEq, Eq)]
pub struct Step {
    pub op: Op,
    pub ev: Ev,
    pub pos_after: Option<(u64, u64)>,
    pub slots_after: Vec<Vec<NRec>>,
    pub calls_after: usize,
    pub grows_after: usize,
}

pub struct Trace {
    pub steps: Vec<Step>,
    pub src: SharedLog,
    pub pol_logs: Vec<PolLog>,
    /// op index at which each policy in `pol_logs` was installed
    pub pol_installed_at: Vec<usize>,
    pub slot_caps: Vec<usize>,
}

pub const N_SLOTS: usize = 3;

/// The record count of `Op::ReadExact`: the byte itself, except that the top values stand for the counts a caller
/// passes to say "everything" (`usize::MAX`, `isize::MAX`, ...) and other counts far beyond any input.
pub fn exact_count(n: u8) -> usize {
    match n {
        0 => 1,
        250 => u32::MAX as usize,
        251 => 1usize << 40,
        252 => (isize::MAX as usize) / 40 + 1,
        253 => isize::MAX as usize,
        254 => usize::MAX / 8,
        255 => usize::MAX,
        n => n as usize,
    }
}

pub struct RunSpec<'a> {
    pub input: &'a [u8],
    pub cap: usize,
    pub policy: PolKind,
    pub script: &'a Script,
    pub ops: &'a [Op],
    pub model: &'a Model,
}

pub fn budget(input_len: usize, cap: usize, n_ops: usize) -> usize {
    2000 + 16 * (input_len + cap + 8) * (n_ops + 2)
}

/// number of seek targets: every record, plus the invalid group of a FASTQ format error
pub fn seek_targets(m: &Model) -> usize {
    let extra = match (&m.term, m.format) {
        (Terminal::Err(_), Format::Fastq) => 1,
        _ => 0,
    };
    m.recs.len() + extra
}

pub fn target_pos(m: &Model, i: usize) -> (u64, u64) {
    if i < m.recs.len() {
        (m.recs[i].line as u64, m.recs[i].byte as u64)
    } else {
        (m.term_line as u64, m.term_byte as u64)
    }
}

pub fn run_ops<R: SeekRdr<Src = Source>>(spec: &RunSpec) -> Trace {
    let shared = Rc::new(Shared::default());
    shared.input_len.set(spec.input.len().max(1));
    let data = Rc::new(spec.input.to_vec());
    let (src, src_log) = Source::new(data, spec.script.clone(), budget(spec.input.len(), spec.cap, spec.ops.len()));
    let (pol, pol_log) = RecPolicy::new(spec.policy, shared.clone());
    let mut pol_logs = vec![pol_log];
    let mut pol_installed_at = vec![0usize];
    let mut rdr = Some(R::open(src, spec.cap, pol));
    let mut slots: Vec<R::Set> = (0..N_SLOTS).map(|_| R::Set::default()).collect();
    let mut steps = Vec::with_capacity(spec.ops.len());
    let mut seen: Vec<(u64, u64)> = Vec::new();
    let mut delivered = 0usize;
    let n_targets = seek_targets(spec.model);

    for (oi, op) in spec.ops.iter().enumerate() {
        shared.op.set(oi);
        shared.delivered.set(delivered);
        let r = match rdr.as_mut() {
            Some(r) => r,
            None => break,
        };
        let calls_before = src_log.borrow().calls.len();
        let ev = match op {
            Op::Next => {
                let o = r.next_rec();
                if let Out::Rec(_) = o {
                    delivered += 1;
                    if let Some(p) = r.pos() {
                        seen.push(p);
                    }
                }
                Ev::Rec(o)
            }
            Op::Owned => {
                let o = r.next_owned();
                if let Out::Rec(_) = o {
                    delivered += 1;
                    if let Some(p) = r.pos() {
                        seen.push(p);
                    }
                }
                Ev::OwnedRec(o)
            }
            Op::ReadSet(s) => {
                let slot = *s as usize % N_SLOTS;
                let res = r.read_set(&mut slots[slot], None);
                if res == SetOut::Ok {
                    delivered += R::set_len(&slots[slot]);
                }
                Ev::Set { slot, n: None, res }
            }
            Op::ReadExact(s, n) => {
                let slot = *s as usize % N_SLOTS;
                let n = exact_count(*n);
                let res = r.read_set(&mut slots[slot], Some(n));
                if res == SetOut::Ok {
                    delivered += R::set_len(&slots[slot]);
                }
                Ev::Set { slot, n: Some(n), res }
            }
            Op::Seek(i) => {
                if n_targets == 0 {
                    Ev::SeekSkipped
                } else {
                    let t = idx(*i, n_targets);
                    let (line, byte) = target_pos(spec.model, t);
                    let res = r.seek_to(line, byte);
                    let real = src_log.borrow().calls[calls_before..].iter().any(|c| c.kind == CallKind::Seek);
                    if res.is_ok() {
                        delivered = t;
                    }
                    Ev::Seek { line, byte, target: Some(t), res, real }
                }
            }
            Op::SeekSeen(i) => {
                if seen.is_empty() {
                    Ev::SeekSkipped
                } else {
                    let (line, byte) = seen[idx(*i, seen.len())];
                    let target = spec.model.recs.iter().position(|r| r.byte as u64 == byte);
                    let res = r.seek_to(line, byte);
                    let real = src_log.borrow().calls[calls_before..].iter().any(|c| c.kind == CallKind::Seek);
                    if let (Ok(()), Some(t)) = (&res, target) {
                        delivered = t;
                    }
                    Ev::Seek { line, byte, target, res, real }
                }
            }
            Op::SetPolicy(k) => {
                let (pol, log) = RecPolicy::new(*k, shared.clone());
                pol_logs.push(log);
                pol_installed_at.push(oi);
                r.set_policy(pol);
                if r.policy_kind() != *k {
                    panic!("policy() does not return the policy installed by set_policy(): installed {:?}, got {:?}", k, r.policy_kind());
                }
                Ev::Policy
            }
            Op::ShrinkSet(s) => {
                R::set_shrink(&mut slots[*s as usize % N_SLOTS]);
                Ev::Policy
            }
            Op::CloneSet(a, b) => {
                let (src, dst) = (*a as usize % N_SLOTS, *b as usize % N_SLOTS);
                let copy = slots[src].clone();
                slots[dst] = copy;
                Ev::Cloned { src, dst }
            }
            Op::CloneFromSet(a, b) => {
                let (src, dst) = (*a as usize % N_SLOTS, *b as usize % N_SLOTS);
                let copy = slots[src].clone();
                slots[dst].clone_from(&copy);
                Ev::Cloned { src, dst }
            }
            Op::IntoRecords => {
                let r = rdr.take().unwrap();
                let outs = r.drain_into_records(spec.model.recs.len() + 8, 2);
                Ev::Drained(outs)
            }
        };
        let pos_after = rdr.as_ref().and_then(|r| r.pos());
        let slots_after: Vec<Vec<NRec>> = slots.iter().map(|s| R::set_recs(s)).collect();
        for (j, s) in slots.iter().enumerate() {
            if R::set_len(s) != slots_after[j].len() || R::set_is_empty(s) != slots_after[j].is_empty() {
                panic!("record set {}: len() = {}, is_empty() = {}, but iteration yields {} records", j, R::set_len(s), R::set_is_empty(s), slots_after[j].len());
            }
        }
        let grows_after = pol_logs.iter().map(|l| l.borrow().len()).sum();
        steps.push(Step {
            op: op.clone(),
            ev,
            pos_after,
            slots_after,
            calls_after: src_log.borrow().calls.len(),
            grows_after,
        });
    }
    src_log.borrow_mut().bad_policy = shared.bad_answer.get();
    src_log.borrow_mut().runaway = shared.runaway.get();
    src_log.borrow_mut().stalled = shared.stalled.get();
    let slot_caps = slots.iter().map(|s| R::set_buf_capacity(s)).collect();
    Trace { steps, src: src_log, pol_logs, pol_installed_at, slot_caps }
}

pub fn run_ops_fmt(format: Format, spec: &RunSpec) -> Trace {
    match format {
        Format::Fasta => run_ops::<FaRdr<Source>>(spec),
        Format::Fastq => run_ops::<FqRdr<Source>>(spec),
    }
}

// ------------------------------------------------------------------------------------------------
// strict cursor model

#[derive(Default, Debug)]
pub struct StrictStats {
    pub reached_unspecified: bool,
    pub kinds_used: u32,
    pub switches_mid_buffer: u32,
    pub exact_crossing_eof: u32,
    pub refill_smaller: u32,
    pub seeks: u32,
    pub seeks_real: u32,
    pub seeks_inbuf: u32,
    pub reads_after_seek: u32,
    pub records_checked: u32,
    pub positions_checked: u32,
    pub terminal_reported: bool,
    pub error_after_batch: bool,
    pub buffer_limits: u32,
}

fn show(o: &Out) -> String {
    format!("{:?}", o)
}

/// The cursor model of DESIGN.md §3.5. `check_positions`: also check `position()`.
pub fn check_strict(m: &Model, t: &Trace, check_positions: bool) -> Result<StrictStats, Failure> {
    check_strict_opt(m, t, check_positions, false)
}

/// `tolerate_limit`: a call that returns `BufferLimit` is a no-op for the cursor (the refused record is still
/// unread); valid for histories without exact-count reads, where nothing is gathered before the refusal.
pub fn check_strict_opt(m: &Model, t: &Trace, check_positions: bool, tolerate_limit: bool) -> Result<StrictStats, Failure> {
    let fmt = match m.format {
        Format::Fasta => "fasta",
        Format::Fastq => "fastq",
    };
    let n = m.recs.len();
    let mut c = 0usize; // next unread record
    let mut reported = false; // terminal error already reported
    let mut st = StrictStats::default();
    let mut prev_slots: Vec<Vec<NRec>> = vec![Vec::new(); N_SLOTS];
    let mut kinds = [false; 4];
    let mut last_kind: Option<usize> = None;
    let mut after_seek = false;

    // expected output of a single read at cursor c
    let expect_single = |c: usize, reported: bool| -> Option<Out> {
        if c < n {
            Some(Out::Rec(m.recs[c].rec.clone()))
        } else {
            match &m.term {
                Terminal::End => Some(Out::End),
                Terminal::Err(e) => Some(if reported { Out::End } else { Out::Err(e.clone()) }),
                Terminal::Unspecified => None,
            }
        }
    };

    for (si, s) in t.steps.iter().enumerate() {
        let kind_idx = match &s.ev {
            Ev::Rec(_) => Some(0),
            Ev::OwnedRec(_) => Some(1),
            Ev::Set { n: None, .. } => Some(2),
            Ev::Set { n: Some(_), .. } => Some(3),
            _ => None,
        };
        if tolerate_limit {
            let limited = match &s.ev {
                Ev::Rec(o) | Ev::OwnedRec(o) => *o == Out::Err(NErr::BufferLimit),
                Ev::Set { res, .. } => *res == SetOut::Err(NErr::BufferLimit),
                _ => false,
            };
            if limited {
                st.buffer_limits += 1;
                prev_slots = s.slots_after.clone();
                continue;
            }
        }
        if let Some(k) = kind_idx {
            kinds[k] = true;
            if after_seek {
                st.reads_after_seek += 1;
            }
            if let Some(l) = last_kind {
                if l != k && (l >= 2) {
                    // switching away from set reading: the reader typically holds an incomplete record
                    st.switches_mid_buffer += 1;
                }
            }
            last_kind = Some(k);
        }
        match &s.ev {
            Ev::Rec(o) | Ev::OwnedRec(o) => {
                let owned = matches!(s.ev, Ev::OwnedRec(_));
                let exp = match expect_single(c, reported) {
                    Some(e) => e,
                    None => {
                        st.reached_unspecified = true;
                        return Ok(st);
                    }
                };
                let (got_cmp, exp_cmp) = if owned {
                    (
                        match o {
                            Out::Rec(r) => Out::Rec(flat(r)),
                            x => x.clone(),
                        },
                        match &exp {
                            Out::Rec(r) => Out::Rec(flat(r)),
                            x => x.clone(),
                        },
                    )
                } else {
                    (o.clone(), exp.clone())
                };
                if got_cmp != exp_cmp {
                    let what = match (&exp, o) {
                        (Out::Rec(_), Out::Rec(_)) => "wrong-record",
                        (Out::Rec(_), Out::End) => "record-lost/early-end",
                        (Out::Rec(_), Out::Err(_)) => "record-lost/spurious-error",
                        (Out::Err(_), Out::Err(_)) => "wrong-error",
                        (Out::Err(_), Out::Rec(_)) => "invented-record/error-missed",
                        (Out::Err(_), Out::End) => "error-missed",
                        (Out::End, Out::Rec(_)) => "invented-record/after-end",
                        (Out::End, Out::Err(_)) => "spurious-error/after-end",
                        _ => "mismatch",
                    };
                    fail!(
                        format!("{}/{}/{}", fmt, if owned { "owned" } else { "next" }, what),
                        "step {} ({:?}): expected {} but got {} (cursor {} of {} records)",
                        si,
                        s.op,
                        show(&exp_cmp),
                        show(&got_cmp),
                        c,
                        n
                    );
                }
                match o {
                    Out::Rec(_) => {
                        st.records_checked += 1;
                        if check_positions {
                            let want = (m.recs[c].line as u64, m.recs[c].byte as u64);
                            ensure!(
                                s.pos_after == Some(want),
                                format!("{}/position-after-next", fmt),
                                "step {} ({:?}): position after record {} is {:?}, true coordinates (line, byte) = {:?}",
                                si,
                                s.op,
                                c,
                                s.pos_after,
                                want
                            );
                            st.positions_checked += 1;
                        }
                        c += 1;
                    }
                    Out::Err(_) => {
                        reported = true;
                        st.terminal_reported = true;
                    }
                    Out::End => {
                        st.terminal_reported = true;
                    }
                }
            }
            Ev::Set { slot, n: want_n, res } => {
                let content = &s.slots_after[*slot];
                if c < n {
                    ensure!(
                        *res == SetOut::Ok,
                        format!("{}/set/records-lost", fmt),
                        "step {} ({:?}): {} record(s) remain (cursor {}), but the set read returned {:?}",
                        si,
                        s.op,
                        n - c,
                        c,
                        res
                    );
                    let k = content.len();
                    ensure!(
                        k >= 1,
                        format!("{}/set/empty-success", fmt),
                        "step {} ({:?}): successful set read delivered no record",
                        si,
                        s.op
                    );
                    if m.term == Terminal::Unspecified && c + k > n.min(c + want_n.unwrap_or(usize::MAX).min(n - c)) {
                        // the batch runs into the out-of-domain group: only the prefix is claimed
                        for (j, r) in content.iter().take(n - c).enumerate() {
                            ensure!(
                                *r == m.recs[c + j].rec,
                                format!("{}/set/wrong-record", fmt),
                                "step {} ({:?}): set record {} is {:?}, expected record {} = {:?}",
                                si,
                                s.op,
                                j,
                                r,
                                c + j,
                                m.recs[c + j].rec
                            );
                        }
                        st.reached_unspecified = true;
                        return Ok(st);
                    }
                    if let Some(w) = want_n {
                        if m.term == Terminal::Unspecified && *w > n - c {
                            st.reached_unspecified = true;
                            return Ok(st);
                        }
                        let exp_k = (*w).min(n - c);
                        ensure!(
                            k == exp_k,
                            format!("{}/set-exact/wrong-count", fmt),
                            "step {} ({:?}): exact read of {} with {} valid record(s) remaining delivered {}",
                            si,
                            s.op,
                            w,
                            n - c,
                            k
                        );
                        if *w > n - c {
                            st.exact_crossing_eof += 1;
                        }
                    }
                    ensure!(
                        c + k <= n,
                        format!("{}/set/too-many", fmt),
                        "step {} ({:?}): set delivered {} records but only {} remain before the terminal; set = {:?}",
                        si,
                        s.op,
                        k,
                        n - c,
                        content
                    );
                    for (j, r) in content.iter().enumerate() {
                        ensure!(
                            *r == m.recs[c + j].rec,
                            format!("{}/set/wrong-record", fmt),
                            "step {} ({:?}): set record {} is {:?}, expected record {} = {:?}",
                            si,
                            s.op,
                            j,
                            r,
                            c + j,
                            m.recs[c + j].rec
                        );
                    }
                    st.records_checked += k as u32;
                    if k < prev_slots[*slot].len() {
                        st.refill_smaller += 1;
                    }
                    c += k;
                    if check_positions {
                        if let Some(p) = s.pos_after {
                            let want = if c < n {
                                Some((m.recs[c].line as u64, m.recs[c].byte as u64))
                            } else if matches!((&m.term, m.format), (Terminal::Err(_), Format::Fastq)) {
                                Some((m.term_line as u64, m.term_byte as u64))
                            } else {
                                None
                            };
                            if let Some(w) = want {
                                ensure!(
                                    p == w,
                                    format!("{}/position-after-set", fmt),
                                    "step {} ({:?}): position after set read is {:?}, next unread record {} is at (line, byte) = {:?}",
                                    si,
                                    s.op,
                                    p,
                                    c,
                                    w
                                );
                                st.positions_checked += 1;
                            }
                        }
                    }
                } else {
                    // nothing left: the terminal
                    let exp = match expect_single(c, reported) {
                        Some(e) => e,
                        None => {
                            st.reached_unspecified = true;
                            return Ok(st);
                        }
                    };
                    let got = match res {
                        SetOut::Ok => None,
                        SetOut::End => Some(Out::End),
                        SetOut::Err(e) => Some(Out::Err(e.clone())),
                    };
                    match got {
                        None => fail!(
                            format!("{}/set/invented-records", fmt),
                            "step {} ({:?}): nothing is left (expected {}), but the set read succeeded with {:?}",
                            si,
                            s.op,
                            show(&exp),
                            content
                        ),
                        Some(g) => {
                            if g != exp {
                                fail!(
                                    format!("{}/set/wrong-terminal", fmt),
                                    "step {} ({:?}): nothing is left; expected {} but got {}",
                                    si,
                                    s.op,
                                    show(&exp),
                                    show(&g)
                                );
                            }
                            if let Out::Err(_) = g {
                                reported = true;
                                if st.records_checked > 0 {
                                    st.error_after_batch = true;
                                }
                            }
                            st.terminal_reported = true;
                        }
                    }
                }
            }
            Ev::Seek { target, res, real, .. } => {
                ensure!(
                    res.is_ok(),
                    format!("{}/seek/error", fmt),
                    "step {} ({:?}): seek failed with {:?}",
                    si,
                    s.op,
                    res
                );
                match target {
                    Some(i) => {
                        c = *i;
                        reported = false;
                    }
                    None => fail!(
                        format!("{}/seek/unknown-position", fmt),
                        "step {}: a position reported by the reader does not belong to any record",
                        si
                    ),
                }
                st.seeks += 1;
                if *real {
                    st.seeks_real += 1;
                } else {
                    st.seeks_inbuf += 1;
                }
                after_seek = true;
            }
            Ev::Drained(outs) => {
                let mut exp: Vec<Out> = Vec::new();
                for r in &m.recs[c..] {
                    exp.push(Out::Rec(flat(&r.rec)));
                }
                match &m.term {
                    Terminal::Unspecified => {
                        // compare only the record prefix
                        let k = exp.len();
                        ensure!(
                            outs.len() >= k && outs[..k] == exp[..],
                            format!("{}/into_records/mismatch", fmt),
                            "step {}: into_records() delivered {:?}, expected prefix {:?}",
                            si,
                            outs,
                            exp
                        );
                        st.reached_unspecified = true;
                        return Ok(st);
                    }
                    Terminal::Err(e) if !reported => exp.push(Out::Err(e.clone())),
                    _ => {}
                }
                exp.push(Out::End);
                exp.push(Out::End);
                exp.push(Out::End);
                let outs_f: Vec<Out> = outs
                    .iter()
                    .map(|o| match o {
                        Out::Rec(r) => Out::Rec(flat(r)),
                        x => x.clone(),
                    })
                    .collect();
                ensure!(
                    outs_f == exp,
                    format!("{}/into_records/mismatch", fmt),
                    "step {}: into_records() delivered {:?}, expected {:?}",
                    si,
                    outs_f,
                    exp
                );
                st.records_checked += (n - c) as u32;
                st.terminal_reported = true;
                c = n;
            }
            Ev::Cloned { src, dst } => {
                ensure!(
                    s.slots_after[*dst] == prev_slots[*src],
                    format!("{}/clone-differs", fmt),
                    "step {} ({:?}): the clone of record set {} holds {:?}, the original held {:?}",
                    si,
                    s.op,
                    src,
                    s.slots_after[*dst],
                    prev_slots[*src]
                );
            }
            Ev::SeekSkipped | Ev::Policy => {}
        }
        // other slots unchanged
        let touched = match &s.ev {
            Ev::Set { slot, .. } => Some(*slot),
            Ev::Cloned { dst, .. } => Some(*dst),
            _ => None,
        };
        for j in 0..N_SLOTS {
            if Some(j) != touched {
                ensure!(
                    s.slots_after[j] == prev_slots[j],
                    format!("{}/slot-changed", fmt),
                    "step {} ({:?}): record set {} was not the target of this call but changed from {:?} to {:?}",
                    si,
                    s.op,
                    j,
                    prev_slots[j],
                    s.slots_after[j]
                );
            }
        }
        prev_slots = s.slots_after.clone();
    }
    st.kinds_used = kinds.iter().filter(|k| **k).count() as u32;
    Ok(st)
}

// ------------------------------------------------------------------------------------------------
// lenient validity predicate (C06)

#[derive(Default, Debug)]
pub struct GenuineStats {
    pub records_seen: u32,
    pub calls_after_error: u32,
    pub calls_after_end: u32,
    pub slot_iter_after_failed_fill: u32,
    pub errors: u32,
}

/// Every record handed out must be a record of the input (per `recs`, the most permissive record
/// list), reader outputs must come in file order (floor advances, reset by seeks).
pub fn check_genuine(fmt: &str, recs: &[NRec], seek_floor: &dyn Fn(u64) -> Option<usize>, t: &Trace) -> Result<GenuineStats, Failure> {
    let mut st = GenuineStats::default();
    let flats: Vec<NRec> = recs.iter().map(flat).collect();
    let mut floor = 0usize;
    let mut seen_err = false;
    let mut seen_end = false;

    // greedy first match at or after floor
    let find = |r: &NRec, floor: usize, flat_cmp: bool| -> Option<usize> {
        if flat_cmp {
            let fr = flat(r);
            (floor..recs.len()).find(|&j| flats[j] == fr)
        } else {
            (floor..recs.len()).find(|&j| recs[j] == *r)
        }
    };

    for (si, s) in t.steps.iter().enumerate() {
        let is_read = matches!(s.ev, Ev::Rec(_) | Ev::OwnedRec(_) | Ev::Set { .. } | Ev::Drained(_));
        if is_read {
            if seen_err {
                st.calls_after_error += 1;
            }
            if seen_end {
                st.calls_after_end += 1;
            }
        }
        match &s.ev {
            Ev::Rec(o) | Ev::OwnedRec(o) => {
                let owned = matches!(s.ev, Ev::OwnedRec(_));
                match o {
                    Out::Rec(r) => {
                        st.records_seen += 1;
                        match find(r, floor, owned) {
                            Some(j) => floor = j + 1,
                            None => {
                                let anywhere = find(r, 0, owned).is_some();
                                fail!(
                                    format!("{}/{}", fmt, if anywhere { "out-of-order-or-duplicate-record" } else { "fabricated-record" }),
                                    "step {} ({:?}): returned {:?}, which is {} (next expected index >= {})",
                                    si,
                                    s.op,
                                    r,
                                    if anywhere { "a record of the input but out of order / duplicated" } else { "not a record of the input" },
                                    floor
                                );
                            }
                        }
                    }
                    Out::Err(_) => {
                        seen_err = true;
                        st.errors += 1;
                    }
                    Out::End => seen_end = true,
                }
            }
            Ev::Set { slot, res, .. } => {
                let content = &s.slots_after[*slot];
                match res {
                    SetOut::Ok => {
                        ensure!(
                            !content.is_empty(),
                            format!("{}/set/empty-success", fmt),
                            "step {} ({:?}): successful set read delivered no record",
                            si,
                            s.op
                        );
                        for r in content {
                            st.records_seen += 1;
                            match find(r, floor, false) {
                                Some(j) => floor = j + 1,
                                None => {
                                    let anywhere = find(r, 0, false).is_some();
                                    fail!(
                                        format!("{}/set/{}", fmt, if anywhere { "out-of-order-or-duplicate-record" } else { "fabricated-record" }),
                                        "step {} ({:?}): set contains {:?}, which is {} (next expected index >= {})",
                                        si,
                                        s.op,
                                        r,
                                        if anywhere { "a record of the input but out of order / duplicated" } else { "not a record of the input" },
                                        floor
                                    );
                                }
                            }
                        }
                    }
                    SetOut::Err(_) => {
                        seen_err = true;
                        st.errors += 1;
                        st.slot_iter_after_failed_fill += 1;
                    }
                    SetOut::End => {
                        seen_end = true;
                        st.slot_iter_after_failed_fill += 1;
                    }
                }
            }
            Ev::Seek { byte, res, .. } => {
                if res.is_ok() {
                    if let Some(f) = seek_floor(*byte) {
                        floor = f;
                    }
                    seen_end = false;
                } else {
                    // a failed seek may leave the reader at the old place or at the target:
                    // the most permissive floor is the smaller one
                    if let Some(f) = seek_floor(*byte) {
                        floor = floor.min(f);
                    }
                    seen_err = true;
                    st.errors += 1;
                }
            }
            Ev::Drained(outs) => {
                for o in outs {
                    match o {
                        Out::Rec(r) => {
                            st.records_seen += 1;
                            match find(r, floor, true) {
                                Some(j) => floor = j + 1,
                                None => fail!(
                                    format!("{}/into_records/fabricated-or-misordered-record", fmt),
                                    "step {}: into_records() returned {:?} (next expected index >= {})",
                                    si,
                                    r,
                                    floor
                                ),
                            }
                        }
                        Out::Err(_) => {
                            seen_err = true;
                            st.errors += 1;
                        }
                        Out::End => seen_end = true,
                    }
                }
            }
            Ev::SeekSkipped | Ev::Policy | Ev::Cloned { .. } => {}
        }
        // whatever any slot holds at any time must consist of records of the input
        for (j, slot) in s.slots_after.iter().enumerate() {
            for r in slot {
                ensure!(
                    find(r, 0, false).is_some(),
                    format!("{}/slot-holds-fabricated-record", fmt),
                    "step {} ({:?}): record set {} holds {:?}, which is not a record of the input",
                    si,
                    s.op,
                    j,
                    r
                );
            }
        }
    }
    Ok(st)
}

pub fn livelock_check(fmt: &str, t: &Trace) -> CheckResult {
    if let Some((cur, ans)) = t.src.borrow().bad_policy {
        return Err(Failure::new(
            format!("{}/policy-answer-{}", fmt, if ans <= cur { "does-not-grow" } else { "absurdly-large" }),
            format!("the growth policy answered grow_to({}) = {}: the harness refused instead of passing it on", cur, ans),
        ));
    }
    if let Some(cur) = t.src.borrow().stalled {
        return Err(Failure::new(
            format!("{}/policy-asked-again-without-adopting-the-answer", fmt),
            format!("grow_to({}) was called 10 000 times in a row although every answer was a larger size: the reader does not adopt the size it is given (the harness refused in the end)", cur),
        ));
    }
    if let Some(cur) = t.src.borrow().runaway {
        return Err(Failure::new(
            format!("{}/growth-request-although-buffer-exceeds-input", fmt),
            format!("the policy was asked grow_to({}) although the buffer is already larger than the whole input: no record can need that (the harness refused)", cur),
        ));
    }
    if t.src.borrow().budget_exceeded {
        return Err(Failure::new(
            format!("{}/livelock-step-budget", fmt),
            format!("the reader made more than the budgeted number of source calls ({}): livelock", t.src.borrow().calls.len()),
        ));
    }
    Ok(())
}
