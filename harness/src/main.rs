fn main(){}
