//! seqio_verif <ID> quick|thorough        run the check for one property
//! seqio_verif <ID> replay <file>         re-run one replay file

mod alloc;
mod driver;
mod engine;
mod gen;
mod interp;
mod light;
mod model;
mod policy;
mod props;
mod source;
mod util;

use engine::Tier;

#[global_allocator]
static GLOBAL: alloc::Counting = alloc::Counting;

pub fn interp_livelock(src: &source::SharedLog, f: model::Format) -> engine::CheckResult {
    if src.borrow().budget_exceeded {
        return Err(engine::Failure::new(
            format!("{}/livelock-step-budget", light::fmt_name(f)),
            format!("the reader made more than the budgeted number of source calls ({}): livelock", src.borrow().calls.len()),
        ));
    }
    Ok(())
}

fn main() {
    let args: Vec<String> = std::env::args().collect();
    if args.len() < 3 {
        eprintln!("usage: seqio_verif <ID> quick|thorough | <ID> replay <file>");
        std::process::exit(2);
    }
    engine::install_panic_hook();
    let id = args[1].as_str();
    let tier = match args[2].as_str() {
        "quick" => Tier::Quick,
        "thorough" => Tier::Thorough,
        "replay" => Tier::Quick,
        t => {
            eprintln!("unknown tier {}", t);
            std::process::exit(2);
        }
    };
    if args[2] == "replay" {
        if args.len() < 4 {
            eprintln!("replay needs a file");
            std::process::exit(2);
        }
        std::process::exit(props::replay(id, &args[3]));
    }
    let code = match id {
        "C01" => props::c01::run(tier),
        "C02" => props::c01::run_c02(tier),
        "C03" => props::c03::run(tier),
        "C04" => props::c04::run_c04(tier),
        "C05" => props::c04::run_c05(tier),
        "C06" => props::c06::run(tier),
        "C09" => props::c09::run(tier),
        "C10" => props::c10::run(tier),
        "C11" => props::c11::run(tier),
        "C12" => props::c12::run(tier),
        "C13" => props::c13::run(tier),
        "C14" => props::c14::run_check(tier),
        "C17" => props::c17::run(tier),
        "C18" => props::c18::run(tier),
        "C19" => props::c19::run(tier),
        "C20" => props::c20::run(tier),
        _ => {
            eprintln!("unknown property {}", id);
            2
        }
    };
    std::process::exit(code);
}
