//! seqio_verif <ID> quick|thorough        run the check for one property
//! seqio_verif <ID> replay <file>         re-run one replay file


use seqio_verif::engine::{self, Tier};
use seqio_verif::{alloc, props};

#[global_allocator]
static GLOBAL: alloc::Counting = alloc::Counting;

fn main() {
    let args: Vec<String> = std::env::args().collect();
    if args.len() < 3 {
        eprintln!("usage: seqio_verif <ID> quick|thorough | <ID> replay <file>");
        std::process::exit(2);
    }
    engine::install_panic_hook();
    if args[1] == "decode-artifact" {
        // seqio_verif decode-artifact <target> <artifact file> : writes a replay JSON, prints its path
        std::process::exit(decode_artifact(&args[2], args.get(3).map(|s| s.as_str()).unwrap_or("")));
    }
    let id = args[1].as_str();
    let tier = match args[2].as_str() {
        "quick" => Tier::Quick,
        "thorough" => Tier::Thorough,
        "replay" => Tier::Quick,
        t => {
            eprintln!("unknown tier {}", t);
            std::process::exit(2);
        }
    };
    if args[2] == "replay" {
        if args.len() < 4 {
            eprintln!("replay needs a file");
            std::process::exit(2);
        }
        std::process::exit(props::replay(id, &args[3]));
    }
    let code = match id {
        "C01" => props::c01::run(tier),
        "C02" => props::c01::run_c02(tier),
        "C03" => props::c03::run(tier),
        "C04" => props::c04::run_c04(tier),
        "C05" => props::c04::run_c05(tier),
        "C06" => props::c06::run(tier),
        "C09" => props::c09::run(tier),
        "C10" => props::c10::run(tier),
        "C11" => props::c11::run(tier),
        "C12" => props::c12::run(tier),
        "C13" => props::c13::run(tier),
        "C14" => props::c14::run_check(tier),
        "C17" => props::c17::run(tier),
        "C18" => props::c18::run(tier),
        "C19" => props::c19::run(tier),
        "C20" => props::c20::run(tier),
        _ => {
            eprintln!("unknown property {}", id);
            2
        }
    };
    std::process::exit(code);
}

fn decode_artifact(target: &str, file: &str) -> i32 {
    let data = match std::fs::read(file) {
        Ok(d) => d,
        Err(e) => {
            eprintln!("cannot read {}: {}", file, e);
            return 2;
        }
    };
    let (id, sub, case) = match seqio_verif::fuzzdec::artifact_to_case(target, &data) {
        Some(x) => x,
        None => {
            eprintln!("unknown target {}", target);
            return 2;
        }
    };
    let res = engine::guarded(|| seqio_verif::fuzzdec::run_target(target, &data));
    let (sig, msg) = match &res {
        Ok(()) => ("none".to_string(), "the oracle holds on this input".to_string()),
        Err(f) => (f.sig.clone(), f.msg.clone()),
    };
    let v = serde_json::json!({"property": id, "sub": sub, "signature": sig, "message": msg, "case": case, "from_libfuzzer_artifact": file});
    let dir = engine::verif_dir().join("failures");
    let _ = std::fs::create_dir_all(&dir);
    let name = std::path::Path::new(file).file_name().map(|s| s.to_string_lossy().to_string()).unwrap_or_default();
    let path = dir.join(format!("{}-{}-{}.json", id, target, name));
    if std::fs::write(&path, serde_json::to_string_pretty(&v).unwrap()).is_err() {
        return 2;
    }
    println!("{} {} {}", id, if res.is_ok() { "holds" } else { "fails" }, path.display());
    if res.is_ok() {
        0
    } else {
        1
    }
}
