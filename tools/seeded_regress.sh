#!/bin/bash
# usage: tools/seeded_regress.sh [dir...]   re-runs, for every seeded change (default: all of seeded/C??-?), the quick check of the
# property it targets (and, if that passes, the other checks meta.json lists as detecting it). One line per change:
# "<id> DETECTED by <ID>" or "<id> MISSED". /repo must be clean; it is restored after every change.
cd "$(dirname "$0")/.."
dirs=("$@"); [ ${#dirs[@]} -eq 0 ] && dirs=(seeded/C??-?)
missed=0
for d in "${dirs[@]}"; do
  id=$(basename $d); own=${id%-*}
  others=$(python3 -c "import json;d=json.load(open('$d/meta.json'));print(' '.join(x for x in d['detected_by'] if x!='$own'))")
  hit=""
  for c in $own $others; do
    if tools/try_patch.sh $d/patch.diff $c 2>&1 | grep -q "^$c rc=1 "; then hit=$c; break; fi
  done
  if [ -n "$hit" ]; then echo "$id DETECTED by $hit"; else echo "$id MISSED"; missed=$((missed+1)); fi
done
echo "missed: $missed"
