#!/usr/bin/env python3
"""Packages confirmed mutants from /tmp/mut/<ID>-out/<x>/ into /verif/seeded/<ID>-<x>/ using /tmp/mut/results.txt."""
import json, os, re, shutil, sys
ROOT = sys.argv[1] if len(sys.argv) > 1 else '/tmp/mut'
SUFFIX = dict(a='a', b='b') if ROOT == '/tmp/mut' else dict(a='k') if ROOT == '/tmp/mut7' else dict(a='e', b='f') if ROOT == '/tmp/mut3' else dict(a='g', b='h') if ROOT == '/tmp/mut4' else dict(a='i', b='j') if ROOT in ('/tmp/mut5', '/tmp/mut6') else dict(a='c', b='d')
res = open(ROOT + '/results.txt').read().split('== ')[1:]
SEEN = set()
for block in res:
    lines = block.strip().splitlines()
    d = lines[0].strip()
    m = re.match(r'/tmp/mut\d*/(C\d+)-out/(\w+)', d)
    if not m: continue
    pid, x = m.groups()
    x = SUFFIX.get(x, x)
    confirm = [l for l in lines if l.startswith('CONFIRM')]
    if not confirm or 'CONFIRMED' not in confirm[-1]:
        print('skip (not confirmed)', d); continue
    prev = '/verif/seeded/%s-%s/meta.json' % (pid, x)
    checks = json.load(open(prev))['results'] if os.path.exists(prev) and d in SEEN else {}
    SEEN.add(d)
    cur = None
    for l in lines[1:]:
        mm = re.match(r'(C\d+) rc=(\d+) (.*)', l)
        if mm:
            cur = mm.group(1); checks[cur] = {"exit": int(mm.group(2)), "summary": mm.group(3), "signatures": []}
        elif 'signature:' in l and cur:
            checks[cur]["signatures"].append(l.strip())
    out = '/verif/seeded/%s-%s' % (pid, x)
    os.makedirs(out, exist_ok=True)
    for f in ('patch.diff', 'demo.rs', 'notes.md'):
        if os.path.exists(os.path.join(d, f)): shutil.copy(os.path.join(d, f), out)
    notes = open(os.path.join(d, 'notes.md')).read() if os.path.exists(os.path.join(d, 'notes.md')) else ''
    meta = {
        "id": "%s-%s" % (pid, x),
        "breaks_property": pid,
        "origin": "written by an independent sub-agent that saw only the property text and a scratch worktree of /repo (nothing from /verif)",
        "needs_to_manifest": "see notes.md (author's description)",
        "confirmed_by": "tools/confirm_mutant.sh in a scratch worktree /tmp/confirm-wt: demo passes on the unchanged tree, fails with the patch; tests/fasta.rs, tests/fastq.rs and the doc tests pass with the patch",
        "confirmation": confirm[-1],
        "checks_run": "tools/try_patch.sh <patch> <ids> (git -C /repo apply; ./check.sh <id> quick; git -C /repo checkout -- .)",
        "results": checks,
        "detected_by": sorted(k for k, v in checks.items() if v["exit"] == 1),
        "missed_by": sorted(k for k, v in checks.items() if v["exit"] == 0),
    }
    hist = {}
    if os.path.exists(ROOT + '/history.json'):
        hist = json.load(open(ROOT + '/history.json'))
    if meta['id'] in hist:
        meta['history'] = hist[meta['id']]
    json.dump(meta, open(os.path.join(out, 'meta.json'), 'w'), indent=1)
    print(out, 'detected by', meta["detected_by"], 'missed by', meta["missed_by"])
