#!/usr/bin/env python3
"""Regression over the seeded changes and the benign refactorings, isolated from /repo and /verif/evidence:
a scratch worktree of /repo and private copies of the harness and sched crates (path dependency rewritten) are used.

  seeded_regress.py seeded [out.json]   every seeded/C??-? change: the quick check of the targeted property must exit 1
                                        (if it passes, the other checks listed in meta.json 'detected_by' are tried)
  seeded_regress.py benign [out.json] [prefix]   every seeded/benign/* refactoring (w* = round 1, x* = round 2): EVERY quick check must exit 0

Scratch directory: /tmp/regress-<mode> (removed at the end, worktree included)."""
import glob, json, os, shutil, subprocess, sys, time
V = os.path.dirname(os.path.dirname(os.path.abspath(__file__)))
MODE = sys.argv[1] if len(sys.argv) > 1 else 'seeded'
ROOT = '/tmp/regress-' + MODE + (('-' + sys.argv[3]) if len(sys.argv) > 3 else '')
OUT = sys.argv[2] if len(sys.argv) > 2 else ROOT + '.json'
# optional third argument: only directories whose name starts with this prefix (e.g. 'x' = second benign round)
PREFIX = sys.argv[3] if len(sys.argv) > 3 else ''
REPO = ROOT + '/repo'
VD = ROOT + '/vdir'
SCHED = ('C07', 'C08', 'C15', 'C16')
ALL = ['C%02d' % i for i in range(1, 21)]
# REGRESS_IDS=C04,C05,...: restrict the run to these properties (seeded: changes that target them; benign: these checks)
ONLY = [x for x in os.environ.get('REGRESS_IDS', '').split(',') if x]
if ONLY:
    ALL = [x for x in ALL if x in ONLY]
env = dict(os.environ, CARGO_NET_OFFLINE='true', SEQIO_VERIF_DIR=VD, RUST_BACKTRACE='0', VERIF_CASE_TIMEOUT='60')
env.pop('VERIF_SCALE', None)


def sh(cmd, cwd=None, timeout=3000, merge=False):
    try:
        p = subprocess.run(cmd, cwd=cwd, env=env, stdout=subprocess.PIPE, stderr=subprocess.STDOUT if merge else subprocess.DEVNULL, timeout=timeout)
        return p.returncode, p.stdout.decode(errors='replace')
    except subprocess.TimeoutExpired:
        return 124, 'TIMEOUT'


if os.path.exists(ROOT):
    sh(['git', '-C', '/repo', 'worktree', 'remove', '--force', REPO])
    shutil.rmtree(ROOT, ignore_errors=True)
os.makedirs(ROOT)
rc, out = sh(['git', '-C', '/repo', 'worktree', 'add', '--detach', REPO, 'HEAD'])
assert rc == 0, out
for crate in ('harness', 'sched', 'blackbox'):
    shutil.copytree(V + '/' + crate, ROOT + '/' + crate, ignore=shutil.ignore_patterns('target'))
    p = ROOT + '/' + crate + '/Cargo.toml'
    text = open(p).read().replace('path = "/repo"', 'path = "%s"' % REPO)
    open(p, 'w').write(text)
# sched includes engine.rs/util.rs of the harness by relative path: the copy keeps the same layout
os.makedirs(VD)
shutil.copytree(V + '/replays', VD + '/replays')
shutil.copy(V + '/KNOWN_FINDINGS.txt', VD)


def build(crate):
    return sh(['cargo', 'build', '--release', '--offline'], cwd=ROOT + '/' + crate, merge=True)


def run(cid):
    crate, binary = ('sched', 'seqio_verif_sched') if cid in SCHED else ('harness', 'seqio_verif')
    rc, out = sh(['timeout', '-k', '5', '900', '%s/%s/target/release/%s' % (ROOT, crate, binary), cid, 'quick'], timeout=1000)
    sigs = sorted(set(l.split('signature:')[1].strip() for l in out.splitlines() if 'signature:' in l))[:4]
    if rc == 0 and cid in SCHED:
        # the complementary real-thread pass of check.sh
        if 'blackbox' not in BUILT_BB:
            BUILT_BB['blackbox'] = build('blackbox')[0]
        if BUILT_BB['blackbox'] == 0:
            rc, out = sh(['timeout', '-k', '5', '900', '%s/blackbox/target/release/seqio_verif_blackbox' % ROOT, cid, 'quick'], timeout=1000)
            sigs = sorted(set('real-threads: ' + l.split('signature:')[1].strip() for l in out.splitlines() if 'signature:' in l))[:4]
        else:
            rc, sigs = 2, ['blackbox build failed']
    return rc, sigs


BUILT_BB = {}


def restore():
    sh(['git', 'checkout', '--', '.'], cwd=REPO)
    sh(['git', 'clean', '-fdq', 'src'], cwd=REPO)


results = []
restore()
for crate in ('harness', 'sched', 'blackbox'):
    rc, out = build(crate)
    assert rc == 0, out[-3000:]
if MODE == 'seeded':
    dirs = sorted(glob.glob(V + '/seeded/C??-?'))
else:
    dirs = sorted(glob.glob(V + '/seeded/benign/[wx]*'))
dirs = [d for d in dirs if os.path.basename(d).startswith(PREFIX)]
if ONLY and MODE == 'seeded':
    dirs = [d for d in dirs if os.path.basename(d)[:3] in ONLY]
for d in dirs:
    name = os.path.basename(d)
    restore()
    rc, out = sh(['git', 'apply', d + '/patch.diff'], cwd=REPO)
    if rc != 0:
        results.append({'id': name, 'status': 'patch does not apply'})
        print(name, 'PATCH DOES NOT APPLY', flush=True)
        continue
    t0 = time.time()
    built = {}
    BUILT_BB.clear()
    def ensure_built(cid):
        crate = 'sched' if cid in SCHED else 'harness'
        if crate not in built:
            built[crate] = build(crate)[0]
        return built[crate] == 0
    if MODE == 'seeded':
        meta = json.load(open(d + '/meta.json'))
        own = meta['breaks_property']
        order = [own] + [x for x in meta.get('detected_by', []) if x != own]
        hit, sigs, notes = None, [], []
        for cid in order:
            if not ensure_built(cid):
                notes.append(cid + ': build failed (check.sh would fall back to blackbox/ or report inconclusive)')
                continue
            rc, s = run(cid)
            if rc == 1:
                hit, sigs = cid, s
                break
            notes.append('%s: exit %d' % (cid, rc))
        exp_miss = meta.get('expected') == 'not-detected'
        r = {'id': name, 'status': ('DETECTED' if hit else 'MISSED') if not exp_miss else ('MISSED (expected, see meta.json)' if not hit else 'DETECTED (unexpected)'), 'by': hit, 'signatures': sigs, 'notes': notes, 'secs': round(time.time() - t0, 1)}
    else:
        alarms = {}
        # the repository's own tests must pass with the change (it is meant to be behaviour-preserving)
        rc_t, out_t = sh(['timeout', '900', 'cargo', 'test', '--offline', '--test', 'fasta', '--test', 'fastq'], cwd=REPO, merge=True)
        if rc_t != 0:
            alarms['repo-tests'] = {'exit': rc_t, 'tail': out_t[-400:]}
        for cid in ALL:
            if not ensure_built(cid):
                alarms[cid] = 'build failed'
                continue
            rc, s = run(cid)
            if rc != 0:
                alarms[cid] = {'exit': rc, 'signatures': s}
        r = {'id': name, 'status': 'SILENT' if not alarms else 'ALARM', 'alarms': alarms, 'secs': round(time.time() - t0, 1)}
    results.append(r)
    print(json.dumps(r), flush=True)
    json.dump(results, open(OUT, 'w'), indent=1)
restore()
json.dump(results, open(OUT, 'w'), indent=1)
bad = [r['id'] for r in results if r['status'] not in ('DETECTED', 'SILENT', 'MISSED (expected, see meta.json)')]
print('total', len(results), 'not as expected:', bad)
sh(['git', '-C', '/repo', 'worktree', 'remove', '--force', REPO])
shutil.rmtree(ROOT, ignore_errors=True)
sh(['git', '-C', '/repo', 'worktree', 'prune'])
sys.exit(1 if bad else 0)
