#!/usr/bin/env python3
"""Regenerates /verif/MANIFEST.json from the table below (single source of truth)."""
import json, os, subprocess
V = os.path.dirname(os.path.dirname(os.path.abspath(__file__)))
props = [json.loads(l)["id"] for l in open(os.path.join(V, "properties.jsonl"))]

def repo_commits(prefix):
    out = subprocess.run(["git", "-C", "/repo", "log", "--format=%h %s"], capture_output=True, text=True).stdout
    return [l.split()[0] for l in out.splitlines() if l.split(" ", 1)[1].startswith(prefix)]

# id -> (engine, category, technique, level text, level note, design ref)
CHECKS = {}

def add(pid, engine, category, technique, text, note):
    CHECKS[pid] = dict(engine=engine, category=category, technique=technique, text=text, note=note)

MODEL_NOTE = "trusted: the reference model in harness/src/model.rs (naive LF splitter), proptest's generators/shrinker, the scripted in-memory source; most generated inputs are <= ~600 bytes with capacities <= 300 + relative ones; dedicated sub-checks add documents of 10 kB..1 MB, records of 64 KiB..18 MiB, capacities up to 20 MiB and (C05/C17) generated sources beyond 4 GiB"

add("C01", "harness", "exploration", "property-based testing: generated inputs x configurations against an independent reference model (proptest) + exhaustive small-scope enumeration + libFuzzer with the same oracle (thorough)",
    "Differential against the reference model M_fa over grammar-built documents, mutations and byte soups x capacities (absolute and aligned to record ends) x policies x chunk/interrupt scripts x three consumption modes; both directions (nothing lost, nothing invented, order). The thorough tier enumerates every string up to length 9 over a 5-symbol structural alphabet for capacities 3..12. Sampling beyond that scope: no proof of absence.",
    MODEL_NOTE)

add("C02", "harness", "exploration", "property-based testing: generated inputs x configurations against an independent reference model (proptest) + exhaustive small-scope enumeration + libFuzzer with the same oracle (thorough)",
    "Differential against the reference model M_fq (four-line groups, validation order start byte / separator byte / lengths, truncation and blank-tail rules) over grammar-built documents with a defect of each kind at a generated record index, truncation at every byte, mutations and soups x capacities aligned to record ends x policies x chunk scripts x three consumption modes. Exhaustive for all strings up to length 8 over {@,+,LF,CR,A} x capacities 3..12 in the thorough tier. The comparison stops at groups whose sequence and quality line use different terminators (outside the claimed domain).",
    MODEL_NOTE)

add("C03", "harness", "exploration", "property-based testing: differential between two generated configurations of the same code (proptest), no reference model; libFuzzer variant in the thorough tier",
    "Each case reads one generated input twice under two generated configurations (capacity x permissive policy x chunking x Interrupted pattern) in one of three modes and requires identical flat traces: records, errors with all fields, every reported position, the End point. Sampling of input x configuration pairs; capacities are aimed at record boundaries so that alignments differ on purpose.",
    "trusted: the scripted source and recording policy; only policies that permit the needed size are generated; bounded sizes")
add("C04", "harness", "exploration", "stateful property-based testing: generated call histories interpreted against a cursor model over an independent reference model (proptest)",
    "Generated histories of next / records() / read_record_set / read_record_set_exact / seek / into_records on one reader with three reusable record-set slots, checked after every step against the strict cursor model (exactly once, in order, equal content, batch-size rules, untouched slots unchanged, error only after all preceding records).",
    MODEL_NOTE)
add("C05", "harness", "exploration", "stateful property-based testing: seek-heavy generated histories against reference coordinates (proptest)",
    "Seek-heavy histories (to every record, from every reader state, in-buffer and real seeks, positions from the model and positions reported by the reader) checked against the capacity-free coordinates of the reference model; position after next(), after set reads, and the stream after each seek. Sub-check seek-after-invalid-start: the reader state 'stopped with InvalidStart' (blank lines + preamble lines + well-formed FASTA body), then seeks to the body's records by their true coordinates.",
    MODEL_NOTE)
add("C06", "harness", "exploration", "property-based testing with fault injection: generated histories, refusing policies and injected source errors against a validity predicate (proptest) + libFuzzer target with the same predicate (thorough)",
    "Widest domain: soups, mutated and out-of-domain inputs, refusing policies, one-byte chunks, injected read/seek errors (one-shot and sticky), calls after errors and after end, set iteration after failed fills. Validity predicate: no panic, no livelock (deterministic step budget), every record handed out or held by a set is a record of the input, in file order.",
    "trusted: the lenient record list of the model (most permissive), the step budget as livelock detector; a livelock that never touches the source is only caught by the outer watchdog (exit 2)")

add("C10", "harness", "exploration", "property-based testing: round trip through the parser + raw-byte wrap predicate + whole-vs-chunked differential (proptest) + exhaustive small scope over all chunkings",
    "Generated headers/sequences/chunkings/wrap widths through all 11 FASTA writer entry points, written back to back and parsed again; wrap widths checked on the raw bytes; whole vs chunked byte equality. Exhaustive for sequence length <= 8, wrap <= 9, every cut set.",
    "trusted: the crate's own FASTA reader as inverse (its correctness is C01's subject); bounded lengths (<= 200)")
add("C11", "harness", "exploration", "property-based testing: round trip (write -> parse) and inverse (parse -> write_unchanged -> byte comparison against model extents) over generated documents (proptest)",
    "FASTQ field round trip through 4 entry points; write_unchanged compared byte-for-byte with each record's extent from the reference model (LF added iff the model says the last line is unterminated), FASTA counterpart up to trailing CR/LF normalisation and re-parse to the identical record; capacities and chunkings vary so records straddle refills.",
    MODEL_NOTE)
add("C12", "harness", "exploration", "metamorphic property-based testing: one generated structure rendered with LF and with CRLF / per-line mixtures, outcomes compared (proptest) + exhaustive tiny structures",
    "Metamorphic relation LF vs CRLF (FASTA: also per-line mixtures), with/without final terminator, two capacities, three read modes; additionally both renderings must parse back to the generating structure, so an error appearing or disappearing on both sides is seen too. Exhaustive over tiny structures x capacities 3..12.",
    "trusted: the renderer in harness/src/props/c12.rs; well-formed = what it renders; every accessor of every record (from next() and from record sets) is compared between the renderings")
add("C13", "harness", "exploration", "property-based testing: algebraic relations between accessors, three observations of every record (proptest)",
    "Relations between all accessors of every record of generated inputs (incl. non-UTF-8, empty headers, repeated spaces, empty lines), observed as borrowed record, owned copy and record-set copy.",
    "no model; bounded input sizes")
add("C17", "harness", "exploration", "property-based testing: generated malformed inputs with the defect at every record index and buffer alignment, error fields against the reference model (proptest)",
    "Every format error's variant, line, found byte, lengths and id compared with the capacity-free reference model for defects at generated record indices and capacities aimed at the offending group's offset; Display output must contain the values.",
    MODEL_NOTE)
add("C19", "harness", "exploration", "property-based testing: serialisation round trip (serde_json text, serde_json::Value tree, positional binary format) of owned records with arbitrary bytes and of reused record sets (proptest)",
    "deserialize(serialize(x)) compared through every accessor, for owned records with arbitrary bytes and for a reused record set after every (plain / exact) fill, including sets carrying stale offsets and sets after end / error.",
    "three paths: serde_json text, a buffered serde_json::Value tree, and a positional bincode-like format written for the harness (harness/src/minibin.rs); other serde formats are not exercised")
add("C20", "harness", "exploration", "model-based property testing: generated front/back step programs and adaptor programs against a Vec-with-two-indices model (proptest) + exhaustive step lists",
    "SeqLines stepped from both ends with len()/size_hint() queried after every step and compared with a two-index Vec model; adaptor programs compared with the same adaptors over the model; record-set and owned-record iterators walked past the end. Exhaustive for all step lists <= 8 on 0..5 lines.",
    "the Vec model is the definition of the iterator contracts")

add("C09", "harness", "exploration", "property-based testing: generated histories with recording / refusing / slowly growing policies, invariants over the policy log and the source-call log (proptest) + pure-function PBT of the built-in policies",
    "Invariants over the recorded policy requests and source reads: chain of grow_to arguments, read requests bounded by the adopted size, growth only when the record being parsed does not fit (one byte of look-ahead slack), BufferLimit iff refusal, replaced policy never asked, long fitting streams never grow; documented arithmetic of StdPolicy/DoubleUntil/DoubleUntilLimited around thresholds up to 2^40.",
    "trusted: the recording policy and scripted source; extents from the reference model; the one-byte slack rule (DESIGN.md C09)")
add("C14", "harness", "fault_enumeration", "fault injection enumerated over every source call of generated histories (proptest generates the cases, the fault index k is exhaustive per case); Interrupted patterns compared differentially",
    "For every generated (input, configuration, history) a failure is injected at the k-th source call for every k of the fault-free run (reads and seeks), cycling through 10 error kinds: the API call that hit it must return Err(Io) with that kind, earlier steps equal the fault-free run (which itself satisfies the cursor model). Interrupted patterns must leave the whole trace unchanged.",
    "one fault per run; what happens after the failing call is C06's subject; trusted: scripted source")
add("C18", "harness", "exploration", "property-based testing with a resource oracle: counting global allocator with a thread-local window around every steady-state call (proptest)",
    "Long generated documents x capacities x modes (next / reused record set) x both formats: every dominated call after warm-up must perform 0 heap allocations (views into the buffer), the set buffer capacity and the reader capacity stay unchanged.",
    "allocations are observed through #[global_allocator] only; domination rule skips calls that may legitimately enlarge an offset vector")

SN = "every check ends with a short complementary pass on real threads (blackbox/); trusted base: the shuttle re-implementations of mpsc / crossbeam scope / scoped_threadpool in /repo/src/verif_hooks.rs (feature verif_hooks) and shuttle's schedulers; schedules are sampled except in the tiny DFS scope"
add("C07", "sched", "exploration", "schedule-controlled property-based testing: proptest generates configurations and scheduler seeds, shuttle (random / PCT / round-robin / bounded DFS) owns the interleaving of the real parallel.rs; history invariant (exactly-once, own output)",
    "Every execution runs the real read_parallel_init / parallel_fasta / parallel_fastq code under a deterministic scheduler with an instrumented mock reader (tagged sets, content-dependent outputs) or the real readers over documents with batches of different sizes; the recorded history must show exactly-once delivery with the matching output, in-set file order, and file order with one worker. Tiny configurations are enumerated by DFS up to a schedule cap.",
    SN)
add("C08", "sched", "fault_enumeration", "schedule-controlled testing with enumerated consumer/fault dimensions: for each generated base configuration every 'stop after k', every reader-error index and every init-closure failure is run under sampled shuttle schedules; deadlock = shuttle's deterministic detection",
    "Termination is decided by shuttle (all tasks blocked => deadlock with a replayable schedule; step bound => livelock), never by a wall clock. Consumer behaviours (drain, stop after k for every k incl. never asking), reader error at every set index and each init closure failing at each call are enumerated per base configuration; additionally no callback may run after the call returned and the result must be the expected Ok/Err.",
    SN)
add("C15", "sched", "fault_enumeration", "schedule-controlled testing with enumerated fault positions (reader error at every set index, each init closure at each call) under sampled shuttle schedules; parse errors compared with sequential reading",
    "Error received exactly once, nothing from behind it, earlier sets at most once (all + end marker when draining); reader_init / dataset_init / record_data_init / rset_data_init failures come back as Err without panic or deadlock; a parse error through parallel_fasta/parallel_fastq equals the sequential one (Debug-equal).",
    SN)
add("C16", "sched", "exploration", "schedule-controlled property-based testing: resource invariant over the recorded history (number and identity of data sets, reader lead bounded by the queue length) with long inputs and slow/fast consumers under shuttle schedules",
    "dataset_init calls <= queue_len + 1, every data set seen by fill/worker/consumer was created by it, at every fill: fills <= queue_len + min(received + 1, finished results); per-record outputs alive at the same time bounded by (queue_len + 1) x largest set; real readers: record-set buffer capacities bounded independent of the number of batches.",
    SN + "; memory is judged through the number/identity/capacity of data sets, not RSS")

NOT_YET = "check under construction (framework being built); will be claimed once its command exists"

def main():
    m = {
        "version": 1,
        "setup_cmd": "./setup.sh",
        "hooks": {
            "guard": "cargo feature `verif_hooks` of seq_io (off by default)",
            "enable": "the sched crate depends on seq_io with features = [\"verif_hooks\"]; every other check builds /repo with default features",
            "baseline_off_cmd": "cd /repo && cargo test --workspace --no-fail-fast --offline",
            "source_commits": repo_commits("verif hook"),
            "add_only": True,
        },
        "engines": [
            {"name": "harness", "path": "harness/", "serves_properties": [p for p in props if CHECKS.get(p, {}).get("engine") == "harness"],
             "kind_free_text": "proptest 1.11 TestRunner driven from a binary (fixed seeds, 12 workers), reference models, scripted source, recording policy, op interpreter, exhaustive small-scope enumerators"},
            {"name": "sched", "path": "sched/", "serves_properties": [p for p in props if CHECKS.get(p, {}).get("engine") == "sched"],
             "kind_free_text": "shuttle 0.9 deterministic schedulers (random / PCT / DFS) over the real parallel.rs built with feature verif_hooks; proptest generates configurations"},
            {"name": "blackbox", "path": "blackbox/", "serves_properties": ["C07", "C08", "C15", "C16"],
             "kind_free_text": "the same drivers and oracles as sched/ on real threads without the hook (no schedule control, watchdog = exit 2): check.sh runs it as a complementary pass after every successful shuttle pass (many configurations one after the other in one process: sees code that bypasses the shims or keeps process-wide state), and as the fallback when the build with feature verif_hooks fails although /repo itself builds"},
            {"name": "fuzz", "path": "fuzzproj/", "serves_properties": ["C01", "C02", "C03", "C06"],
             "kind_free_text": "cargo-fuzz / libFuzzer targets (thorough tier) that decode bytes into (input, configuration, ops) and run the same oracles"},
        ],
        "checks": [],
        "not_applicable": [],
        "notes": "All commands: ./check.sh <ID> quick|thorough ; replay: ./check.sh <ID> replay <file>. Exit 2 = inconclusive (build failure/watchdog), never a violation. KNOWN_FINDINGS.txt lists findings and fixes.",
    }
    for p in props:
        c = CHECKS.get(p)
        if c is None:
            m["not_applicable"].append({"property_id": p, "reason": NOT_YET})
            continue
        m["checks"].append({
            "property_id": p,
            "quick_cmd": f"./check.sh {p} quick",
            "thorough_cmd": f"./check.sh {p} thorough",
            "evidence_file": f"/verif/evidence/{p}.json",
            "replay_cmd_template": f"./check.sh {p} replay {{path}}",
            "engine": c["engine"],
            "level_claimed": {"category": c["category"], "text": c["text"], "design_ref": f"DESIGN.md §4 {p}"},
            "level_note": c["note"],
            "technique": c["technique"],
        })
    json.dump(m, open(os.path.join(V, "MANIFEST.json"), "w"), indent=1)
    print("checks:", [c["property_id"] for c in m["checks"]])

main()
