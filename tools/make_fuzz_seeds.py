#!/usr/bin/env python3
"""Adds structured seeds to fuzzproj/corpus/<target>/ (idempotent): inputs starting with byte order marks / other file
signatures, and long reads (sequence lines of 130 / 260 / 1030 bytes), valid and with one quality byte replaced by LF.
Header layout = harness/src/fuzzdec.rs (fuzz_read: 16 bytes, fuzz_config_diff: 30 bytes, fuzz_total: 16 + 3 x ops)."""
import os
V = os.path.dirname(os.path.dirname(os.path.abspath(__file__)))

def fq(n, k=2, broken=False):
    out = b''
    for i in range(k):
        seq = bytes(b'ACGT'[(i + j) % 4] for j in range(n))
        qual = bytearray(b'I' * n)
        if broken and i == 0 and n > 3:
            qual[n // 2] = 10
        out += b'@r%d\n' % i + seq + b'\n+\n' + bytes(qual) + b'\n'
    return out

def fa(n, k=2):
    out = b''
    for i in range(k):
        seq = bytes(b'ACGT'[(i + j) % 4] for j in range(n))
        out += b'>r%d\n' % i + seq + b'\n'
    return out

docs = []
for magic in (b'\xef\xbb\xbf', b'\xff\xfe', b'\x1f\x8b', b'\xef\xbb'):
    docs.append((0, magic + fa(8)))
    docs.append((1, magic + fq(8)))
    docs.append((0, magic))
for n in (130, 260, 1030):
    k = 1 if n > 1000 else 2  # keep every seed below run_fuzz.sh's -max_len
    docs.append((1, fq(n, k)))
    docs.append((1, fq(n, k, broken=True)))
    docs.append((0, fa(n, k)))
    docs.append((0, b'\n>a\nA\n' + fa(n, k)))

def hdr_cfg(cap_a, cap_b):
    return bytes([cap_a, cap_b, 0, 0]) + bytes(10)

for target in ('fuzz_read', 'fuzz_config_diff', 'fuzz_total'):
    d = os.path.join(V, 'fuzzproj', 'corpus', target)
    os.makedirs(d, exist_ok=True)
    for i, (fmt, doc) in enumerate(docs):
        for j, (a, b) in enumerate(((5, 0), (230, 100))):
            if target == 'fuzz_read':
                h = bytes([fmt]) + hdr_cfg(a, b) + bytes([0])
            elif target == 'fuzz_config_diff':
                h = bytes([fmt]) + hdr_cfg(a, b) + hdr_cfg(230 - a % 200, 7) + bytes([j])
            else:
                ops = bytes([0, 0, 0, 5, 0, 0, 9, 0, 1, 0, 0, 0, 7, 1, 2, 0, 0, 0])
                h = bytes([fmt]) + hdr_cfg(a, b) + bytes([6]) + ops
            open(os.path.join(d, 'struct%03d_%d' % (i, j)), 'wb').write(h + doc)
    print(target, len(os.listdir(d)), 'files')
