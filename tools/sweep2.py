#!/usr/bin/env python3
"""Second mutation sweep: single-line mutants generated HERE for the parts of the code base the first sweep did not
cover (parallel.rs, policy.rs, lib.rs, and the accessor / iterator / writer / serde parts of fasta.rs and fastq.rs).
Phase 1 filters each mutant through compilation and the 46 repository tests (scratch worktree), phase 2 runs the quick
checks (private copies of the harness and sched crates built against the scratch worktree), most relevant checks first,
stopping at the first check that reports a violation. Nothing touches /repo's working tree or /verif's evidence.
usage: sweep2.py [out.json] [max]"""
import json, os, re, shutil, subprocess, sys, time
V = os.path.dirname(os.path.dirname(os.path.abspath(__file__)))
OUT = sys.argv[1] if len(sys.argv) > 1 else '/tmp/mutrun2/results.json'
MAXN = int(sys.argv[2]) if len(sys.argv) > 2 else 10**9
ROOT = '/tmp/mutrun2'; REPO = ROOT + '/repo'; H = ROOT + '/harness'; S = ROOT + '/sched'; VD = ROOT + '/vdir'
env = dict(os.environ, CARGO_NET_OFFLINE='true', SEQIO_VERIF_DIR=VD, RUST_BACKTRACE='0', VERIF_CASE_TIMEOUT='40')
env.pop('VERIF_SCALE', None)

def sh(cmd, cwd=None, timeout=1800):
    try:
        p = subprocess.run(cmd, cwd=cwd, env=env, stdout=subprocess.PIPE, stderr=subprocess.STDOUT, timeout=timeout)
        return p.returncode, p.stdout.decode(errors='replace')
    except subprocess.TimeoutExpired:
        return 124, 'TIMEOUT'

os.makedirs(ROOT, exist_ok=True)
if not os.path.exists(REPO):
    rc, out = sh(['git', '-C', '/repo', 'worktree', 'add', '--detach', REPO, 'HEAD']); assert rc == 0, out
for name, dst in (('harness', H), ('sched', S)):
    if os.path.exists(dst):
        for e in os.listdir(dst):
            if e != 'target':
                p = os.path.join(dst, e)
                shutil.rmtree(p) if os.path.isdir(p) else os.remove(p)
    os.makedirs(dst, exist_ok=True)
    for e in os.listdir(V + '/' + name):
        if e == 'target': continue
        s = os.path.join(V, name, e); d = os.path.join(dst, e)
        shutil.copytree(s, d) if os.path.isdir(s) else shutil.copy(s, d)
    t = open(dst + '/Cargo.toml').read().replace('path = "/repo"', 'path = "%s"' % REPO)
    open(dst + '/Cargo.toml', 'w').write(t)
# sched includes engine.rs/util.rs of the harness by relative path: ../../harness/src -> our copy sits beside it
os.makedirs(VD, exist_ok=True)
if os.path.exists(VD + '/replays'): shutil.rmtree(VD + '/replays')
shutil.copytree(V + '/replays', VD + '/replays'); shutil.copy(V + '/KNOWN_FINDINGS.txt', VD)

# ---- regions NOT covered by the first sweep (line numbers of /repo HEAD)
covered = {'fasta.rs': [(205, 690), (817, 836), (1078, 1133)], 'fastq.rs': [(170, 756), (936, 958), (1088, 1144)]}
files = ['parallel.rs', 'policy.rs', 'lib.rs', 'fasta.rs', 'fastq.rs']
ops = [(' == ', ' != '), (' != ', ' == '), (' < ', ' <= '), (' <= ', ' < '), (' > ', ' >= '), (' >= ', ' > '), (' + 1', ''), (' - 1', ''),
       (' + 1', ' + 2'), (' && ', ' || '), (' || ', ' && '), ('if !', 'if '), (' += ', ' -= '), ('continue;', 'break;'), ('break;', 'continue;'),
       ('.is_none()', '.is_some()'), ('.is_some()', '.is_none()'), ('.is_empty()', '.len() == 1'), ('.first()', '.last()'), ('.last()', '.first()'),
       ('queue_len', 'queue_len + 1'), ("b' '", "b'\\t'"), ("b'\\n'", "b'\\r'"), ("b'\\r'", "b'\\n'"), ("b'>'", "b'@'"), ("b'@'", "b'>'"), ("b'+'", "b'-'"),
       ('splitn(2', 'splitn(3'), ('.nth(1)', '.nth(0)'), (' * 2', ' * 3'), ('.ok();', '.unwrap();'), ('true', 'false'), ('false', 'true'),
       ('0..', '1..'), ('.skip(1)', '.skip(0)'), ('.take(self.npos)', '.take(self.npos + 1)'), ('(1 << 23)', '(1 << 22)'), ('current_size * 2', 'current_size * 2 + 1'),
       ('<= self.limit', '< self.limit'), ('wrap - n_line', 'wrap - n_line + 1'), ('chunk.len() <= remaining', 'chunk.len() < remaining'),
       ('out.iter_mut().zip(&mut record_iter)', '(&mut record_iter).zip(out.iter_mut()).map(|(a, b)| (b, a))'), ('.unwrap_or(usize::MAX)', '.unwrap_or(0)')]
muts = []
for f in files:
    lines = open(REPO + '/src/' + f).read().split('\n')
    in_doc_test = False
    for i, l in enumerate(lines):
        ln = i + 1; st = l.strip()
        if any(a <= ln <= b for a, b in covered.get(f, [])): continue
        if not st or st.startswith('//') or st.startswith('#[') or st.startswith('use ') or st.startswith('pub use'): continue
        for o, n in ops:
            start = 0
            while True:
                j = l.find(o, start)
                if j < 0: break
                muts.append({'file': f, 'line': ln, 'old': l, 'new': l[:j] + n + l[j + len(o):], 'desc': '%s -> %s' % (o.strip(), n.strip())})
                start = j + 1
        if st.endswith(';') and not st.startswith(('let ', 'return', 'pub ', 'use ', 'type ', 'const ', 'fn ')) and '=>' not in st:
            muts.append({'file': f, 'line': ln, 'old': l, 'new': '', 'desc': 'delete stmt'})
seen = set(); uniq = []
for m in muts:
    k = (m['file'], m['line'], m['new'])
    if k not in seen: seen.add(k); uniq.append(m)
muts = uniq[:MAXN]
for k, m in enumerate(muts): m['id'] = 2000 + k
print(len(muts), 'generated mutants', flush=True)

ORDER = {
    'parallel.rs': ['C07', 'C08', 'C15', 'C16'],
    'policy.rs': ['C09', 'C03', 'C01', 'C02', 'C08'],
    'lib.rs': ['C01', 'C02', 'C03', 'C14', 'C12', 'C13', 'C06'],
    'fasta.rs': ['C13', 'C20', 'C10', 'C11', 'C12', 'C19', 'C01', 'C04', 'C05', 'C06', 'C17', 'C03', 'C09', 'C14', 'C18', 'C07'],
    'fastq.rs': ['C13', 'C11', 'C12', 'C19', 'C02', 'C17', 'C04', 'C05', 'C06', 'C03', 'C09', 'C14', 'C18', 'C20', 'C07'],
}
ALL = ['C%02d' % i for i in range(1, 21)]
SCHED = {'C07', 'C08', 'C15', 'C16'}

def restore():
    sh(['git', 'checkout', '--', '.'], cwd=REPO)

restore()
rc, out = sh(['cargo', 'test', '--offline', '--test', 'fasta', '--test', 'fastq', '--no-run'], cwd=REPO); assert rc == 0, out[-2000:]
rc, out = sh(['cargo', 'build', '--release', '--offline'], cwd=H); assert rc == 0, out[-3000:]
rc, out = sh(['cargo', 'build', '--release', '--offline'], cwd=S); assert rc == 0, out[-3000:]
results = []
for i, m in enumerate(muts):
    restore()
    p = REPO + '/src/' + m['file']
    lines = open(p).read().split('\n')
    assert lines[m['line'] - 1] == m['old']
    lines[m['line'] - 1] = m['new']
    open(p, 'w').write('\n'.join(lines))
    t0 = time.time()
    rc, out = sh(['cargo', 'test', '--offline', '--test', 'fasta', '--test', 'fastq'], cwd=REPO, timeout=600)
    if 'could not compile' in out or 'error[' in out:
        m['status'] = 'nocompile'
    elif rc != 0:
        m['status'] = 'killed_by_existing_tests'
    else:
        order = ORDER[m['file']] + [c for c in ALL if c not in ORDER[m['file']]]
        built = {}
        det = None; inconcl = []
        for cid in order:
            crate = S if cid in SCHED else H
            if crate not in built:
                rc, out = sh(['cargo', 'build', '--release', '--offline'], cwd=crate)
                built[crate] = rc == 0
            if not built[crate]:
                inconcl.append((cid, 'build failed')); continue
            binname = 'seqio_verif_sched' if cid in SCHED else 'seqio_verif'
            rc, out = sh(['timeout', '-k', '5', '900', crate + '/target/release/' + binname, cid, 'quick'], timeout=1000)
            if rc == 1:
                det = (cid, sorted(set(l.split('signature:')[1].strip() for l in out.splitlines() if 'signature:' in l))[:3]); break
            elif rc != 0:
                inconcl.append((cid, rc))
        m['detected_by'] = det; m['inconclusive'] = inconcl
        m['status'] = 'killed_by_checks' if det else ('inconclusive' if inconcl else 'SURVIVED')
    m['secs'] = round(time.time() - t0, 1)
    results.append(m)
    print(i, m['file'], m['line'], m['desc'], '->', m['status'], m.get('detected_by'), m.get('inconclusive') or '', flush=True)
    if i % 5 == 0: json.dump(results, open(OUT, 'w'), indent=1)
restore()
json.dump(results, open(OUT, 'w'), indent=1)
from collections import Counter
print(Counter(m['status'] for m in results))
