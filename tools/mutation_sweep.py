#!/usr/bin/env python3
"""Mutation sweep: single-line mutants of src/fasta.rs and src/fastq.rs (generated and pre-filtered by an independent
sub-agent: seeded/sweep/agent_results_{a,b}.json; only those that COMPILE and PASS the 46 existing tests are used) are
applied one at a time to a scratch worktree of /repo, a private copy of the harness crate is rebuilt against it, and the
quick tier of every harness-engine check is run. Nothing touches /repo's working tree or /verif's evidence.
usage: mutation_sweep.py [out.json] [max_mutants]"""
import json, os, shutil, subprocess, sys, time
V = os.path.dirname(os.path.dirname(os.path.abspath(__file__)))
OUT = sys.argv[1] if len(sys.argv) > 1 else '/tmp/mutrun/results.json'
MAXN = int(sys.argv[2]) if len(sys.argv) > 2 else 10**9
ROOT = '/tmp/mutrun'
REPO = ROOT + '/repo'
H = ROOT + '/harness'
VD = ROOT + '/vdir'
IDS = ['C01','C02','C03','C04','C05','C06','C09','C10','C11','C12','C13','C14','C17','C18','C19','C20']
env = dict(os.environ, CARGO_NET_OFFLINE='true', SEQIO_VERIF_DIR=VD, RUST_BACKTRACE='0', VERIF_CASE_TIMEOUT='40')
env.pop('VERIF_SCALE', None)

def sh(cmd, cwd=None, timeout=1800):
    try:
        p = subprocess.run(cmd, cwd=cwd, env=env, stdout=subprocess.PIPE, stderr=subprocess.STDOUT, timeout=timeout)
        return p.returncode, p.stdout.decode(errors='replace')
    except subprocess.TimeoutExpired:
        return 124, 'TIMEOUT'

os.makedirs(ROOT, exist_ok=True)
if not os.path.exists(REPO):
    rc, out = sh(['git', '-C', '/repo', 'worktree', 'add', '--detach', REPO, 'HEAD']); assert rc == 0, out
if os.path.exists(H): shutil.rmtree(H, ignore_errors=True)
shutil.copytree(V + '/harness', H, ignore=shutil.ignore_patterns('target'))
t = open(H + '/Cargo.toml').read().replace('path = "/repo"', 'path = "%s"' % REPO)
open(H + '/Cargo.toml', 'w').write(t)
os.makedirs(VD, exist_ok=True)
for d in ('replays',):
    if os.path.exists(VD + '/' + d): shutil.rmtree(VD + '/' + d)
    shutil.copytree(V + '/' + d, VD + '/' + d)
shutil.copy(V + '/KNOWN_FINDINGS.txt', VD)

muts = []
for f in ('agent_results_a.json', 'agent_results_b.json'):
    for m in json.load(open(V + '/seeded/sweep/' + f)):
        if m['status'] in ('survived_all', 'CANDIDATE'):
            m['agent_status'] = m.pop('status'); m.pop('harness_out', None)
            muts.append(m)
# de-duplicate identical edits
seen = set(); uniq = []
for m in muts:
    k = (m['file'], m['line'], m['new'])
    if k not in seen: seen.add(k); uniq.append(m)
muts = uniq[:MAXN]
print(len(muts), 'mutants that compile and pass the existing tests', flush=True)

def restore():
    sh(['git', 'checkout', '--', '.'], cwd=REPO)

results = []
# sanity: unmutated tree must be silent
restore()
rc, out = sh(['cargo', 'build', '--release', '--offline'], cwd=H); assert rc == 0, out[-3000:]
for i, m in enumerate(muts):
    restore()
    p = REPO + '/src/' + m['file']
    lines = open(p).read().split('\n')
    if lines[m['line'] - 1] != m['old']:
        m['sweep_status'] = 'stale (source line changed)'; results.append(m); continue
    lines[m['line'] - 1] = m['new']
    open(p, 'w').write('\n'.join(lines))
    t0 = time.time()
    rc, out = sh(['cargo', 'build', '--release', '--offline'], cwd=H)
    if rc != 0:
        m['sweep_status'] = 'nocompile'; results.append(m); continue
    det = {}; inconcl = []
    for cid in IDS:
        rc, out = sh(['timeout', '-k', '5', '600', H + '/target/release/seqio_verif', cid, 'quick'], timeout=700)
        if rc == 1:
            sigs = [l.split('signature:')[1].strip() for l in out.splitlines() if 'signature:' in l]
            det[cid] = sorted(set(sigs))[:4]
        elif rc != 0:
            inconcl.append((cid, rc, [l for l in out.splitlines() if 'INCONCLUSIVE' in l][:1]))
    m['detected_by'] = det; m['inconclusive'] = inconcl
    m['sweep_status'] = 'killed' if det else ('inconclusive' if inconcl else 'SURVIVED')
    m['secs'] = round(time.time() - t0, 1)
    results.append(m)
    print(i, m['file'], m['line'], m['desc'], '->', m['sweep_status'], sorted(det), inconcl, flush=True)
    json.dump(results, open(OUT, 'w'), indent=1)
restore()
json.dump(results, open(OUT, 'w'), indent=1)
k = sum(1 for m in results if m.get('sweep_status') == 'killed')
print('killed', k, 'of', len(results))
