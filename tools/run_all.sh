#!/bin/bash
# Runs every registered check at the given tier (default quick) with the default seed and prints one line each.
cd "$(dirname "$0")/.."
TIER=${1:-quick}
unset VERIF_SCALE
fail=0
for id in $(python3 -c "import json;print(' '.join(c['property_id'] for c in json.load(open('MANIFEST.json'))['checks']))"); do
  out=$(./check.sh $id $TIER 2>&1); rc=$?
  echo "[$rc] $(echo "$out" | grep -E "^$id $TIER:" | tail -1)"
  if [ $rc -ne 0 ]; then fail=1; echo "$out" | grep -E "VIOLATION|INCONCLUSIVE|KNOWN" | head -5; fi
done
exit $fail
