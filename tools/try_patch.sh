#!/bin/bash
# usage: tools/try_patch.sh [-R] <patch.diff> <ID>...     applies the patch to /repo, runs the quick checks, restores /repo.
# Output: one line per check "ID rc=<exit> <summary>"; evidence files are restored afterwards.
cd "$(dirname "$0")/.."
REV=""
if [ "$1" = "-R" ]; then REV="-R"; shift; fi
PATCH=$(readlink -f "$1"); shift
if [ -n "$(git -C /repo status --porcelain --untracked-files=no)" ]; then echo "/repo is dirty, refusing"; exit 2; fi
if ! git -C /repo apply $REV "$PATCH"; then echo "patch does not apply"; exit 2; fi
trap 'git -C /repo checkout -- . ; git -C /verif checkout -- evidence 2>/dev/null' EXIT
TIER=${TIER:-quick}
for id in "$@"; do
  out=$(./check.sh $id $TIER 2>&1); rc=$?
  echo "$id rc=$rc $(echo "$out" | grep -E "^$id $TIER:" | tail -1)"
  echo "$out" | grep -E "VIOLATION|signature|INCONCLUSIVE" | head -6 | sed 's/^/    /'
done
