#!/bin/bash
# usage: tools/try_benign.sh <patch.diff>   applies a behaviour-preserving change to /repo, runs EVERY quick check, restores /repo
cd "$(dirname "$0")/.."
PATCH=$(readlink -f "$1")
if [ -n "$(git -C /repo status --porcelain --untracked-files=no)" ]; then echo "/repo is dirty, refusing"; exit 2; fi
if ! git -C /repo apply "$PATCH"; then echo "patch does not apply"; exit 2; fi
trap 'git -C /repo checkout -- . ; git -C /verif checkout -- evidence 2>/dev/null' EXIT
(cd /repo && timeout 900 cargo test --offline --test fasta --test fastq 2>&1 | grep -E "^test result" | tr '\n' ' '; echo)
tools/run_all.sh quick 2>&1 | grep -v "^\[0\]"
echo "done $PATCH"
