#!/bin/bash
# usage: tools/confirm_mutant.sh <dir with patch.diff + demo.rs>
# Confirms in a scratch worktree (outside /repo and /verif): patch applies, crate builds, existing tests pass with it,
# demo fails with it and passes without it. Prints a one-line verdict and writes <dir>/confirm.log
D=$(readlink -f "$1")
WT=${CONFIRM_WT:-/tmp/confirm-wt}
export CARGO_NET_OFFLINE=true
if [ ! -d $WT ]; then git -C /repo worktree add -q --detach $WT HEAD || exit 2; fi
cd $WT && git checkout -q -- . && git clean -fdq tests
LOG="$D/confirm.log"; : > "$LOG"
if ! git apply --check "$D/patch.diff" 2>>"$LOG"; then echo "CONFIRM $D: patch does not apply"; exit 1; fi
cp "$D/demo.rs" tests/zz_demo.rs
# without the change: demo passes
timeout 1200 cargo test --offline --test zz_demo >>"$LOG" 2>&1; clean_rc=$?
git apply "$D/patch.diff"
timeout 1200 cargo test --offline --test zz_demo >>"$LOG" 2>&1; mut_rc=$?
timeout 1200 cargo test --offline --test fasta --test fastq >>"$LOG" 2>&1; suite_rc=$?
timeout 1200 cargo test --offline --doc >>"$LOG" 2>&1; doc_rc=$?
git checkout -q -- . ; rm -f tests/zz_demo.rs
ok=1
[ $clean_rc -eq 0 ] || ok=0
[ $mut_rc -ne 0 ] || ok=0
[ $suite_rc -eq 0 ] || ok=0
[ $doc_rc -eq 0 ] || ok=0
echo "CONFIRM $D: demo_on_clean_rc=$clean_rc demo_on_mutant_rc=$mut_rc existing_suite_rc=$suite_rc doctests_rc=$doc_rc => $([ $ok -eq 1 ] && echo CONFIRMED || echo REJECTED)"
[ $ok -eq 1 ]
