#!/bin/bash
# usage: tools/eval_mutant.sh <mutant dir> <ID>...   confirm + run checks; appends a line to /tmp/mut/results.txt
D=$1; shift
c=$(tools/confirm_mutant.sh "$D" 2>&1 | tail -1)
echo "$c"
r=$(tools/try_patch.sh "$D/patch.diff" "$@" 2>&1)
echo "$r"
{ echo "== $D"; echo "$c"; echo "$r" | grep -E "rc=|signature" ; } >> ${RESULTS:-/tmp/mut/results.txt}
