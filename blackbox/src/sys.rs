//! Real-thread replacement of sched/src/sys.rs: nothing owns the schedule; executions run on std threads with
//! yield/spin perturbation, and a watchdog turns a real hang into exit code 2 (inconclusive, never a violation).

use crate::par::Sched;
use std::cell::Cell;
use std::time::Duration;

pub const TIER_NAME: &str = "real-threads (black-box fallback, no schedule control)";
/// all tasks of one execution run on the same OS thread (thread-local counters see the whole execution)
pub const SINGLE_OS_THREAD: bool = false;
pub const WORK_DIVISOR: u64 = 25;

thread_local! {
    static RNG: Cell<u64> = const { Cell::new(0x9e3779b97f4a7c15) };
}

#[inline]
pub fn yield_now() {
    // xorshift-driven perturbation: yield, and sometimes spin a little
    let r = RNG.with(|c| {
        let mut x = c.get();
        x ^= x << 13;
        x ^= x >> 7;
        x ^= x << 17;
        c.set(x);
        x
    });
    std::thread::yield_now();
    if r % 4 == 0 {
        for _ in 0..(r >> 60) * 50 {
            std::hint::spin_loop();
        }
    }
}

pub fn run_under<F>(sched: Sched, seed: u64, iterations: usize, body: F) -> Result<usize, crate::engine::Failure>
where
    F: Fn() + Send + Sync + Clone + 'static,
{
    let n = match sched {
        Sched::Dfs(max) => (max as usize).min(40),
        Sched::RoundRobin => 1,
        _ => iterations.max(1),
    };
    let (tx, rx) = std::sync::mpsc::channel();
    std::thread::spawn(move || {
        RNG.with(|c| c.set(seed | 1));
        for _ in 0..n {
            let r = crate::engine::guarded(|| {
                body();
                Ok(())
            });
            if let Err(f) = r {
                let _ = tx.send(Err(f));
                return;
            }
        }
        let _ = tx.send(Ok(n));
    });
    match rx.recv_timeout(Duration::from_secs(60)) {
        Ok(r) => r,
        Err(_) => {
            // a real hang cannot be told from slowness by this tier, and the thread cannot be killed
            println!("INCONCLUSIVE: watchdog: an execution on real threads did not finish within 60 s (possible deadlock); scheduler {:?}, seed {}", sched, seed);
            std::process::exit(2);
        }
    }
}
